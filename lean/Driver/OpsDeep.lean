import Driver.Value
import APModel.Model.Deep
import APModel.Model.Equal
import APModel.Spec.Vocabulary
import APModel.Generated.Equals
open Lean APModel APModel.Codec APModel.Deep

namespace Driver

def kindOfTypeName (t : Deep.Str) : Option Kind :=
  if t.isEmpty then some .object
  else (Spec.vocabulary.find? (fun e => e.name == strOfBytes t)).map (·.kind)

/-- url.ParseRequestURI succeeded with a scheme and a host (modelled on the grammar of the IRI model;
strings outside that grammar are taken to be absolute when they hold "://") -/
def validIRIString (s : Deep.Str) : Bool :=
  match IRI.parseURL s with
  | .abs u => !u.host.isEmpty
  | .notAbs => false
  | .outside => (IRI.findSub IRI.schemeSep s).isSome

/-- the deep model instantiated with the tables regenerated from the source -/
def envJson : Env where
  wrow sn n := (jsonW sn).find? (fun w => w.field == n)
  rrow sn name := (jsonR sn).find? (fun r => r.term == name)
  rrowMap sn name := (jsonR sn).find? (fun r => r.helper == "JSONGetNaturalLanguageField" && r.term ++ "Map" == name)
  fieldKind sn n := (((schemaOf sn).find? (fun r => r.1 == n)).map (fun r => r.2.1)).getD "?"
  kindOfType := kindOfTypeName
  validIRI := validIRIString
  eqv a b := (Equal.itemsEqual APModel.Generated.equalsRows a b).getD false

def opDeepRoundTrip (j : Json) : R Json := do
  return renderItem (normG (roundTrip envJson (← parseItem (← fld j "v"))))

end Driver
