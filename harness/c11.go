package main

import (
	"encoding/json"
	"fmt"
	"strings"

	ap "github.com/go-ap/activitypub"
)

// C11 — Clean() leaves no private recipients along the walked properties; everything else unchanged.

var c11Walk = map[string]bool{"Audience": true, "Attachment": true, "Icon": true, "Image": true, "Context": true, "Generator": true, "AttributedTo": true, "Preview": true, "Tag": true}
var c11ActivityWalk = map[string]bool{"Object": true, "Actor": true, "Target": true}

func nilLikeTree(tr interface{}) bool {
	if tr == nil {
		return true
	}
	m := tr.(T)
	if m["nil"] == true {
		return true
	}
	if s, ok := m["iri"]; ok {
		return s == "" || strings.EqualFold(s.(string), "-")
	}
	return false
}

// expectClean: the statement of C11 as a transformation of the tree (an independent reference).
func expectClean(tr interface{}) interface{} {
	if tr == nil {
		return nil
	}
	m := tr.(T)
	if l, ok := m["items"]; ok && m["nil"] != true {
		return T{"items": expectCleanList(asList(l)), "ptr": m["ptr"]}
	}
	if _, ok := m["t"]; !ok || m["nil"] == true || m["ptr"] != true || m["t"] == "Link" {
		return tr
	}
	f, _ := m["f"].(T)
	nf := T{}
	for name, v := range f {
		switch {
		case name == "Bto" || name == "BCC":
			nf[name] = T{"list": []interface{}{}}
		case c11Walk[name] || (m["t"] == "Activity" && c11ActivityWalk[name]):
			if fm, ok := v.(T); ok {
				if l, ok := fm["list"]; ok {
					nf[name] = T{"list": expectCleanList(asList(l))}
					continue
				}
			}
			nf[name] = expectClean(v)
		default:
			nf[name] = v
		}
	}
	return T{"t": m["t"], "ptr": true, "f": nf}
}

func expectCleanList(l []interface{}) []interface{} {
	out := make([]interface{}, len(l))
	for i, x := range l {
		if nilLikeTree(x) {
			out[i] = nil
		} else {
			out[i] = expectClean(x)
		}
	}
	return out
}

func runClean(tr interface{}) (after interface{}, viol string) {
	it := buildItem(tr)
	hr, ok := it.(ap.HasRecipients)
	if !ok {
		return "not-HasRecipients", fmt.Sprintf("%T does not offer Clean()", it)
	}
	if p, msg := guard(func() { hr.Clean() }); p {
		return "panic", "panic: " + msg
	}
	after = dumpItem(it)
	want := expectClean(tr)
	if !treeEqual(after, want) {
		return after, "after Clean() the value is " + mustJSONs(after) + " — expected (bto/bcc emptied along the walk, everything else unchanged) " + mustJSONs(want)
	}
	// the serialised form of the value itself shows no bto/bcc
	if _, isStruct := tr.(T)["t"]; isStruct {
		var b []byte
		if p, msg := guard(func() { b, _ = ap.MarshalJSON(it) }); p {
			return after, "panic in MarshalJSON after Clean(): " + msg
		}
		var doc map[string]interface{}
		if len(b) > 0 && json.Unmarshal(b, &doc) == nil {
			if _, has := doc["bto"]; has {
				return after, "serialised value still shows bto: " + string(b)
			}
			if _, has := doc["bcc"]; has {
				return after, "serialised value still shows bcc: " + string(b)
			}
		}
	}
	return after, ""
}

func c11Case(c *Ctx, tr interface{}, tag string) {
	after, viol := runClean(tr)
	in := map[string]interface{}{"op": "clean", "v": tr}
	c.Emit(in, after, true)
	c.Tag(tag)
	if viol != "" {
		cls := "C11/clean"
		if strings.HasPrefix(viol, "panic") {
			cls = "C11/panic"
		}
		c.Fail(cls, viol, in)
	}
}

func init() {
	campaigns["C11"] = func(c *Ctx) {
		c.Rule = "values of the 13 pointer types offering Clean() and item lists of them, generated type-directed from the struct definitions with bto/bcc planted with probability 0.55 on each generated object at every depth (so that objects without private recipients embed objects with them) (<=3 quick, <=4 thorough), embedded objects by pointer and by value, links, lists with nil members, on and off the walked properties; first chains 40 and 70 levels deep along a walked property (single position, activity object, list) with private recipients on every level, then a covering set (each type x each walked property holding an object with bto+bcc, each shape: single pointer, single value, list), then coincidences (each type x each ordered pair of a walked property embedding an object with private recipients and another item-valued property naming the same object by IRI or as an id-only object; quick: walked x walked, thorough: walked x all), then random. Distinct by request hash; every case is non-trivial (it carries private recipients)."
		// depth: chains of 40 and 70 embedded objects along one walked property (an attachment of an attachment
		// of …, an activity's object of an object of …, lists counting as a level), private recipients on every
		// level — "recursively, to any depth"; several of them first, so that whatever a deep value leaves behind
		// is met by every later case
		gd := &GenCfg{}
		for _, depth := range []int{40, 70, 40, 40} {
			for _, via := range []string{"Attachment", "Object", "Tag"} {
				typ := "Object"
				if via == "Object" {
					typ = "Activity"
				}
				var node interface{} = T{"t": "Object", "ptr": true, "f": T{"ID": T{"s": gd.nextID("bottom")}, "Type": T{"s": "Note"},
					"Bto": T{"list": []interface{}{T{"iri": gd.nextID("b")}}}, "BCC": T{"list": []interface{}{T{"iri": gd.nextID("c")}}}}}
				for k := 0; k < depth; k++ {
					f := T{"ID": T{"s": gd.nextID("level")}, "Type": T{"s": vocab[typ][0]},
						"Bto": T{"list": []interface{}{T{"iri": gd.nextID("b")}}}, "BCC": T{"list": []interface{}{T{"iri": gd.nextID("c")}}}}
					if via == "Tag" {
						f[via] = T{"list": []interface{}{T{"iri": gd.nextID("i")}, node}}
					} else {
						f[via] = node
					}
					node = T{"t": typ, "ptr": true, "f": f}
				}
				c11Case(c, node, "deep-chain/"+via)
			}
		}
		// covering set
		priv := func(g *GenCfg, ptr bool) T {
			return T{"t": "Object", "ptr": ptr, "f": T{"ID": T{"s": g.nextID("priv")}, "Type": T{"s": "Note"},
				"Bto": T{"list": []interface{}{T{"iri": g.nextID("b")}}}, "BCC": T{"list": []interface{}{T{"iri": g.nextID("c")}}},
				"Icon": T{"t": "Object", "ptr": true, "f": T{"ID": T{"s": g.nextID("deep")}, "BCC": T{"list": []interface{}{T{"iri": g.nextID("d")}}}}}}}
		}
		g := &GenCfg{}
		for _, typ := range objectGoTypes {
			for _, fld := range fieldNames(typ) {
				kind := fieldKind(typ, fld)
				if kind != "item" && kind != "items" {
					continue
				}
				for _, shape := range []string{"ptr", "value", "list"} {
					f := T{"ID": T{"s": g.nextID(typ)}, "Type": T{"s": vocab[typ][0]},
						"Bto": T{"list": []interface{}{T{"iri": g.nextID("x")}}}, "BCC": T{"list": []interface{}{T{"iri": g.nextID("y")}}}}
					switch {
					case kind == "items" || shape == "list":
						l := []interface{}{T{"iri": g.nextID("i")}, priv(g, true), nil, priv(g, false), T{"iri": ""}}
						if kind == "items" {
							f[fld] = T{"list": l}
						} else {
							f[fld] = T{"items": l, "ptr": false}
						}
					case shape == "ptr":
						f[fld] = priv(g, true)
					default:
						f[fld] = priv(g, false)
					}
					c11Case(c, T{"t": typ, "ptr": true, "f": f}, "cover/"+shape)
				}
			}
		}
		// coincidences: one walked property embeds an object with private recipients, another property of the
		// same value names that very object — by its IRI, or as an id-only object — so that a walk which skips
		// what "was already seen" (compared by id) is met
		walked := map[string]bool{"Audience": true, "Attachment": true, "Icon": true, "Image": true, "Context": true, "Generator": true,
			"AttributedTo": true, "Preview": true, "Tag": true, "Object": true, "Actor": true, "Target": true}
		for _, typ := range objectGoTypes {
			var itemFlds []string
			for _, fld := range fieldNames(typ) {
				if k := fieldKind(typ, fld); k == "item" || k == "items" {
					itemFlds = append(itemFlds, fld)
				}
			}
			n := 0
			for _, f1 := range itemFlds {
				if !walked[f1] {
					continue
				}
				for _, f2 := range itemFlds {
					if f1 == f2 || (!walked[f2] && c.N(0, 1) == 0) {
						continue
					}
					n++
					pv := priv(g, true)
					id := pv["f"].(T)["ID"].(T)["s"].(string)
					var other interface{} = T{"iri": id}
					if n%3 == 0 {
						other = T{"t": "Object", "ptr": true, "f": T{"ID": T{"s": id}}}
					}
					f := T{"ID": T{"s": g.nextID(typ)}, "Type": T{"s": vocab[typ][0]},
						"Bto": T{"list": []interface{}{T{"iri": g.nextID("x")}}}}
					if fieldKind(typ, f1) == "items" {
						f[f1] = T{"list": []interface{}{pv}}
					} else {
						f[f1] = pv
					}
					if fieldKind(typ, f2) == "items" {
						f[f2] = T{"list": []interface{}{other}}
					} else {
						f[f2] = other
					}
					c11Case(c, T{"t": typ, "ptr": true, "f": f}, "coincide/"+f1+"~"+f2)
				}
			}
		}
		cfg := &GenCfg{MaxDepth: c.N(3, 4), Density: 22, ValueNodes: true, NilMembers: true, Links: true, EmptyTypes: true, MultiLang: true,
			Force: map[string]bool{"Bto": true, "BCC": true}, ForcePct: 55}
		for i := 0; i < c.N(2500, 60000); i++ {
			typ := objectGoTypes[c.R.Intn(len(objectGoTypes))]
			tr := cfg.genNode(c.R, typ, cfg.MaxDepth, false)
			tr["ptr"] = true
			c11Case(c, tr, "random/"+typ)
		}
		for i := 0; i < c.N(300, 6000); i++ {
			l := cfg.genItemList(c.R, cfg.MaxDepth, 1+c.R.Intn(3))
			c11Case(c, T{"items": l, "ptr": c.R.Bool()}, "random/ItemCollection")
		}
	}
	replayers["C11"] = func(class string, input []byte) string {
		var in map[string]interface{}
		if err := json.Unmarshal(input, &in); err != nil {
			return "bad replay input"
		}
		_, viol := runClean(parseTree(in["v"]))
		return viol
	}
}
