package main

import (
	"fmt"
	"go/ast"
	"go/token"
	"regexp"
	"sort"
	"strings"
)

// Codec tables for C01/C02/C03/C05:
//   Schema      struct -> fields (name, kind, jsonld term)
//   JsonWrite   function -> rows (term, field, helper, guard) + delegations, in source order
//   JsonRead    function -> rows (field, helper, term, conditional) + delegations
//   GobMap      function -> rows (key, field, encoder, guard) + delegations
//   GobUnmap    function -> rows (key, field, decoder) + delegations
// Anything that is not recognised appears as a row or guard starting with "?unknown".

var reNormRecv = regexp.MustCompile(`\b[a-z][A-Za-z0-9]*\.([A-Z][A-Za-z0-9]*(?:\.[A-Z][A-Za-z0-9]*)?)`)

// first selector path rooted at a lower-case identifier inside an expression: x.F or x.F.G -> "F" / "F.G"
func (x *Extractor) fieldPath(e ast.Expr) string {
	path := ""
	ast.Inspect(e, func(n ast.Node) bool {
		if path != "" {
			return false
		}
		if s, ok := n.(*ast.SelectorExpr); ok {
			// collect the chain
			var parts []string
			cur := ast.Expr(s)
			for {
				if se, ok := cur.(*ast.SelectorExpr); ok {
					parts = append([]string{se.Sel.Name}, parts...)
					cur = se.X
					continue
				}
				break
			}
			if id, ok := cur.(*ast.Ident); ok && len(id.Name) > 0 && id.Name[0] >= 'a' && id.Name[0] <= 'z' && id.Name != "val" && id.Name != "mm" {
				// drop trailing method names (MarshalJSON, GobEncode, IsZero, …): keep leading upper-case field names that are not calls
				path = strings.Join(parts, ".")
				return false
			}
		}
		return true
	})
	return path
}

func stripMethods(p string) string {
	parts := strings.Split(p, ".")
	var keep []string
	for _, s := range parts {
		switch s {
		case "MarshalJSON", "GobEncode", "GobDecode", "IsZero", "GetLink", "UnmarshalJSON":
		default:
			keep = append(keep, s)
		}
	}
	return strings.Join(keep, ".")
}

func (x *Extractor) normGuard(cond ast.Expr) string {
	s := x.src(cond)
	s = reNormRecv.ReplaceAllString(s, "x.$1")
	return s
}

var reSubLen = regexp.MustCompile(`^len\(x\.([A-Za-z]+)\.[A-Za-z]+\)(\+len\(x\.([A-Za-z]+)\.[A-Za-z]+\))+ > 0$`)
var reSubLenTerm = regexp.MustCompile(`len\(x\.([A-Za-z]+)\.[A-Za-z]+\)`)

func classifyGuard(g, field string) string {
	f := "x." + field
	var parts []string
	marshal := false
	for _, p := range strings.Split(g, " && ") {
		switch p {
		case "":
		case "err == nil":
		case "len(v) > 0":
			marshal = true
		default:
			parts = append(parts, p)
		}
	}
	g = strings.Join(parts, " && ")
	switch g {
	case "":
		if marshal {
			return "marshalNonEmpty"
		}
		return "always"
	case "len(" + f + ") > 0":
		return "lenPos"
	case f + " != nil":
		return "nonNil"
	case "!" + f + ".IsZero()":
		return "notZero"
	case f + " != 0":
		return "neZero"
	case f + " > 0":
		return "gtZero"
	case f:
		return "isTrue"
	case "hasData[" + f + "]":
		return "isTrueOrData"
	}
	if reSubLen.MatchString(g) {
		all := true
		for _, m := range reSubLenTerm.FindAllStringSubmatch(g, -1) {
			all = all && m[1] == field
		}
		if all {
			return "anySubLen"
		}
	}
	return "?unknown: " + g
}

type codecRow struct {
	a, b, c, d string
}

type codecFn struct {
	name      string
	rows      []codecRow
	delegates []string
	other     []string
}

// enclosing if-conditions of every node
func ifChains(body *ast.BlockStmt) map[ast.Node][]ast.Expr {
	out := map[ast.Node][]ast.Expr{}
	var walk func(n ast.Node, chain []ast.Expr)
	walk = func(n ast.Node, chain []ast.Expr) {
		if n == nil {
			return
		}
		switch v := n.(type) {
		case *ast.IfStmt:
			out[v] = chain
			if v.Init != nil {
				walk(v.Init, chain)
			}
			c2 := append(append([]ast.Expr{}, chain...), v.Cond)
			walk(v.Body, c2)
			if v.Else != nil {
				walk(v.Else, chain)
			}
			return
		case *ast.BlockStmt:
			for _, s := range v.List {
				walk(s, chain)
			}
			return
		case *ast.FuncLit:
			walk(v.Body, chain)
			return
		}
		out[n] = chain
		ast.Inspect(n, func(m ast.Node) bool {
			if m == nil || m == n {
				return true
			}
			switch mm := m.(type) {
			case *ast.IfStmt, *ast.BlockStmt, *ast.FuncLit:
				walk(mm, chain)
				return false
			case *ast.CallExpr:
				out[mm] = chain
			}
			return true
		})
	}
	walk(body, nil)
	return out
}

func (x *Extractor) guardOf(chains map[ast.Node][]ast.Expr, n ast.Node, field string) string {
	var parts []string
	for _, c := range chains[n] {
		g := x.normGuard(c)
		if g == "x == nil" || g == "i == nil" || g == "o == nil" || strings.HasSuffix(g, " == nil") && !strings.Contains(g, ".") {
			continue // `if o == nil { return nil }` guards of callbacks have no body rows anyway
		}
		if g == "hasData" && x.setsHasData[field] {
			g = "hasData[x." + field + "]"
		}
		parts = append(parts, g)
	}
	return classifyGuard(strings.Join(parts, " && "), field)
}

// ---------------------------------------------------------------- JSON write

func (x *Extractor) jsonWriteFn(name string, fd *ast.FuncDecl) codecFn {
	fn := codecFn{name: name}
	chains := ifChains(fd.Body)
	// `if v, err := x.F.MarshalJSON(); …` : v stands for field F inside that if
	vField := map[*ast.IfStmt]string{}
	ast.Inspect(fd.Body, func(n ast.Node) bool {
		if is, ok := n.(*ast.IfStmt); ok && is.Init != nil {
			if as, ok := is.Init.(*ast.AssignStmt); ok && len(as.Rhs) == 1 {
				if c, ok := as.Rhs[0].(*ast.CallExpr); ok {
					if sel, ok := c.Fun.(*ast.SelectorExpr); ok && sel.Sel.Name == "MarshalJSON" {
						vField[is] = stripMethods(x.fieldPath(sel.X))
					} else if ok && x.src(sel) == "json.Marshal" && len(c.Args) == 1 {
						vField[is] = stripMethods(x.fieldPath(c.Args[0]))
					}
				}
			}
		}
		return true
	})
	var ifStack []*ast.IfStmt
	var visit func(n ast.Node)
	visit = func(n ast.Node) {
		ast.Inspect(n, func(m ast.Node) bool {
			switch v := m.(type) {
			case *ast.IfStmt:
				ifStack = append(ifStack, v)
				if v.Init != nil {
					visit(v.Init)
				}
				visit(v.Cond)
				visit(v.Body)
				ifStack = ifStack[:len(ifStack)-1]
				if v.Else != nil {
					visit(v.Else)
				}
				return false
			case *ast.CallExpr:
				id, ok := v.Fun.(*ast.Ident)
				if !ok {
					return true
				}
				switch {
				case strings.HasPrefix(id.Name, "JSONWrite") && strings.HasSuffix(id.Name, "Prop") && len(v.Args) >= 3:
					term := strings.Trim(x.src(v.Args[1]), "\"")
					field := stripMethods(x.fieldPath(v.Args[2]))
					helper := id.Name
					if id.Name == "JSONWriteProp" {
						// value produced first: helper = marshal:<field>
						for i := len(ifStack) - 1; i >= 0; i-- {
							if f, ok := vField[ifStack[i]]; ok {
								field = f
								break
							}
						}
						helper = "marshal"
					}
					fn.rows = append(fn.rows, codecRow{term, field, helper, x.guardOf(chains, v, field)})
					return false
				case strings.HasPrefix(id.Name, "JSONWrite") && strings.HasSuffix(id.Name, "Value") &&
					id.Name != "JSONWriteValue" && id.Name != "JSONWriteStringValue" && id.Name != "JSONWriteItemCollectionValue":
					fn.delegates = append(fn.delegates, id.Name)
				}
			}
			return true
		})
	}
	visit(fd.Body)
	return fn
}

// ---------------------------------------------------------------- JSON read

func (x *Extractor) jsonGetCall(e ast.Expr) (helper, term string, ok bool) {
	var found *ast.CallExpr
	ast.Inspect(e, func(n ast.Node) bool {
		if found != nil {
			return false
		}
		if c, ok := n.(*ast.CallExpr); ok {
			if id, ok := c.Fun.(*ast.Ident); ok && (strings.HasPrefix(id.Name, "JSONGet") || id.Name == "GetAPSource") {
				found = c
				return false
			}
			if sel, ok := c.Fun.(*ast.SelectorExpr); ok && (x.src(sel.X) == "val" || x.src(sel.X) == "src") && strings.HasPrefix(sel.Sel.Name, "Get") {
				found = c
				return false
			}
		}
		return true
	})
	if found == nil {
		return "", "", false
	}
	name := ""
	if id, ok := found.Fun.(*ast.Ident); ok {
		name = id.Name
	} else {
		name = "val." + found.Fun.(*ast.SelectorExpr).Sel.Name
	}
	switch name {
	case "JSONGetID":
		return name, "id", true
	case "JSONGetType":
		return name, "type", true
	case "GetAPSource":
		return name, "source", true
	}
	if len(found.Args) >= 1 {
		last := found.Args[len(found.Args)-1]
		if bl, ok := last.(*ast.BasicLit); ok && bl.Kind == token.STRING {
			return name, strings.Trim(bl.Value, "\""), true
		}
	}
	return name, "?unknown: " + x.src(found), true
}

func (x *Extractor) jsonReadFn(name string, fd *ast.FuncDecl) codecFn {
	fn := codecFn{name: name}
	var stmts func(list []ast.Stmt)
	assignedField := func(n ast.Node) string {
		f := ""
		ast.Inspect(n, func(m ast.Node) bool {
			if as, ok := m.(*ast.AssignStmt); ok && len(as.Lhs) == 1 {
				if sel, ok := as.Lhs[0].(*ast.SelectorExpr); ok {
					if _, ok := sel.X.(*ast.Ident); ok {
						f = sel.Sel.Name
					}
				}
			}
			return true
		})
		return f
	}
	stmts = func(list []ast.Stmt) {
		for _, st := range list {
			switch s := st.(type) {
			case *ast.AssignStmt:
				if len(s.Lhs) == 1 && len(s.Rhs) == 1 {
					if sel, ok := s.Lhs[0].(*ast.SelectorExpr); ok {
						if _, isId := sel.X.(*ast.Ident); isId {
							if h, t, ok := x.jsonGetCall(s.Rhs[0]); ok {
								fn.rows = append(fn.rows, codecRow{sel.Sel.Name, h, t, "always"})
								continue
							}
						}
					}
				}
				// e := Endpoints{} etc.
				if s.Tok == token.DEFINE {
					continue
				}
				fn.other = append(fn.other, "?unknown: "+x.src(s))
			case *ast.IfStmt:
				if s.Init != nil {
					if as, ok := s.Init.(*ast.AssignStmt); ok && len(as.Rhs) == 1 {
						if h, t, ok := x.jsonGetCall(as.Rhs[0]); ok {
							if h == "val.Get" && x.src(s.Cond) == "src != nil" {
								stmts(s.Body.List) // sub-record: the rows are inside
								continue
							}
							if f := assignedField(s.Body); f != "" {
								fn.rows = append(fn.rows, codecRow{f, h, t, "if:" + x.normGuard(s.Cond)})
								continue
							}
						}
						// if val = val.Get(prop); val == nil { return … }  (sub-record entry)
						if strings.Contains(x.src(as), "val.Get(prop)") {
							continue
						}
					}
				}
				if c := x.src(s.Cond); c == "val == nil" {
					continue
				}
				fn.other = append(fn.other, "?unknown: "+x.src(s))
			case *ast.ReturnStmt:
				// return OnObject(x, func(o *Object) error { return JSONLoadObject(val, o) })
				for _, r := range s.Results {
					ast.Inspect(r, func(m ast.Node) bool {
						if c, ok := m.(*ast.CallExpr); ok {
							if id, ok := c.Fun.(*ast.Ident); ok && strings.HasPrefix(id.Name, "JSONLoad") {
								fn.delegates = append(fn.delegates, id.Name)
							}
						}
						return true
					})
				}
			case *ast.ExprStmt:
				if c, ok := s.X.(*ast.CallExpr); ok {
					if id, ok := c.Fun.(*ast.Ident); ok && strings.HasPrefix(id.Name, "JSONLoad") {
						fn.delegates = append(fn.delegates, id.Name)
						continue
					}
				}
				fn.other = append(fn.other, "?unknown: "+x.src(s))
			default:
				fn.other = append(fn.other, "?unknown: "+x.src(st))
			}
		}
	}
	stmts(fd.Body.List)
	return fn
}

// ---------------------------------------------------------------- gob

func (x *Extractor) gobMapFn(name string, fd *ast.FuncDecl) codecFn {
	fn := codecFn{name: name}
	chains := ifChains(fd.Body)
	x.setsHasData = map[string]bool{}
	for _, st := range fd.Body.List {
		if is, ok := st.(*ast.IfStmt); ok && is.Init == nil && len(is.Body.List) == 1 && x.src(is.Body.List[0]) == "hasData = true" {
			if g := x.normGuard(is.Cond); strings.HasPrefix(g, "x.") {
				x.setsHasData[strings.TrimPrefix(g, "x.")] = true
			}
		}
	}
	rl, handled := x.rangeLitRows(fd, "gobEncode", "nonNil")
	fn.rows = append(fn.rows, rl...)
	ast.Inspect(fd.Body, func(n ast.Node) bool {
		if handled[n] {
			return false
		}
		switch v := n.(type) {
		case *ast.AssignStmt:
			// mm["key"], err = enc(x.F) | x.F.GobEncode()
			if len(v.Lhs) >= 1 && len(v.Rhs) == 1 {
				if ix, ok := v.Lhs[0].(*ast.IndexExpr); ok && x.src(ix.X) == "mm" {
					key := strings.Trim(x.src(ix.Index), "\"")
					field := stripMethods(x.fieldPath(v.Rhs[0]))
					enc := "?unknown: " + x.src(v.Rhs[0])
					if c, ok := v.Rhs[0].(*ast.CallExpr); ok {
						if at, ok := c.Fun.(*ast.ArrayType); ok && x.src(at) == "[]byte" {
							enc = "bytes"
						} else if id, ok := c.Fun.(*ast.Ident); ok {
							enc = id.Name
						} else if sel, ok := c.Fun.(*ast.SelectorExpr); ok {
							enc = "." + sel.Sel.Name
						}
					}
					fn.rows = append(fn.rows, codecRow{key, field, enc, x.guardOf(chains, v, field)})
				}
			}
		case *ast.CallExpr:
			if id, ok := v.Fun.(*ast.Ident); ok && strings.HasPrefix(id.Name, "map") && strings.HasSuffix(id.Name, "Properties") {
				fn.delegates = append(fn.delegates, id.Name)
			}
		}
		return true
	})
	return fn
}

func (x *Extractor) gobUnmapFn(name string, fd *ast.FuncDecl) codecFn {
	fn := codecFn{name: name}
	rl, handled := x.rangeLitRows(fd, "gobDecode", "")
	fn.rows = append(fn.rows, rl...)
	ast.Inspect(fd.Body, func(n ast.Node) bool {
		if handled[n] {
			return false
		}
		switch v := n.(type) {
		case *ast.IfStmt:
			// if raw, ok := mm["key"]; ok { … x.F … dec(raw) … }
			if v.Init != nil {
				if as, ok := v.Init.(*ast.AssignStmt); ok && len(as.Rhs) == 1 {
					if ix, ok := as.Rhs[0].(*ast.IndexExpr); ok && x.src(ix.X) == "mm" {
						key := strings.Trim(x.src(ix.Index), "\"")
						field, dec := "", ""
						ast.Inspect(v.Body, func(m ast.Node) bool {
							switch w := m.(type) {
							case *ast.CallExpr:
								if dec != "" {
									return true
								}
								if id, ok := w.Fun.(*ast.Ident); ok && (strings.HasPrefix(id.Name, "gobDecode") || id.Name == "string") {
									dec = id.Name
									for _, a := range w.Args {
										if u, ok := a.(*ast.UnaryExpr); ok && u.Op == token.AND {
											field = stripMethods(x.fieldPath(u.X))
										}
									}
								} else if sel, ok := w.Fun.(*ast.SelectorExpr); ok && (sel.Sel.Name == "GobDecode") {
									dec = ".GobDecode"
									field = stripMethods(x.fieldPath(sel.X))
								}
							case *ast.AssignStmt:
								if len(w.Lhs) >= 1 && field == "" {
									if sel, ok := w.Lhs[0].(*ast.SelectorExpr); ok {
										if _, isId := sel.X.(*ast.Ident); isId {
											field = sel.Sel.Name
										}
									}
								}
							}
							return true
						})
						if dec == "" {
							dec = "?unknown: " + x.src(v.Body)
						}
						fn.rows = append(fn.rows, codecRow{key, field, dec, ""})
						return false
					}
				}
			}
		case *ast.CallExpr:
			if id, ok := v.Fun.(*ast.Ident); ok && strings.HasPrefix(id.Name, "unmap") && strings.HasSuffix(id.Name, "Properties") {
				fn.delegates = append(fn.delegates, id.Name)
			}
		}
		return true
	})
	return fn
}


// for name, it := range map[string]Item{"k": x.F, …} { if it == nil { continue }; mm[name], err = enc(it) }
func (x *Extractor) rangeLitRows(fd *ast.FuncDecl, prefix string, guard string) (rows []codecRow, handled map[ast.Node]bool) {
	handled = map[ast.Node]bool{}
	ast.Inspect(fd.Body, func(n ast.Node) bool {
		rs, ok := n.(*ast.RangeStmt)
		if !ok {
			return true
		}
		cl, ok := rs.X.(*ast.CompositeLit)
		if !ok {
			return true
		}
		codec := ""
		ast.Inspect(rs.Body, func(m ast.Node) bool {
			if c, ok := m.(*ast.CallExpr); ok {
				if id, ok := c.Fun.(*ast.Ident); ok && strings.HasPrefix(id.Name, prefix) && codec == "" {
					codec = id.Name
				}
			}
			return true
		})
		g := guard
		if guard != "" && !strings.Contains(x.src(rs.Body), "== nil { continue }") {
			g = "always"
		}
		for _, e := range cl.Elts {
			if kv, ok := e.(*ast.KeyValueExpr); ok {
				rows = append(rows, codecRow{strings.Trim(x.src(kv.Key), "\""), stripMethods(x.fieldPath(kv.Value)), codec, g})
			}
		}
		handled[rs] = true
		return false
	})
	return
}

// ---------------------------------------------------------------- emit

func emitCodecFns(sb *strings.Builder, defName, doc string, fns []codecFn) {
	fmt.Fprintf(sb, "/-- %s -/\ndef %s : List CodecFn := [\n", doc, defName)
	for i, f := range fns {
		var rows []string
		for _, r := range f.rows {
			rows = append(rows, fmt.Sprintf("(%s, %s, %s, %s)", lstr(r.a), lstr(r.b), lstr(r.c), lstr(r.d)))
		}
		sep := ","
		if i == len(fns)-1 {
			sep = ""
		}
		fmt.Fprintf(sb, "  { fn := %s, rows := [%s], delegates := %s, other := %s }%s\n", lstr(f.name), strings.Join(rows, ", "), lstrList(f.delegates), lstrList(f.other), sep)
	}
	sb.WriteString("]\n\n")
}

func (x *Extractor) schemaKind(t ast.Expr) string {
	switch s := x.src(t); s {
	case "Item", "CanReceiveActivities", "ObjectOrLink":
		return "item"
	case "ItemCollection":
		return "items"
	case "NaturalLanguageValues":
		return "nlv"
	case "time.Time":
		return "time"
	case "time.Duration":
		return "duration"
	case "float64":
		return "float"
	case "int64":
		return "int"
	case "uint":
		return "uint"
	case "bool":
		return "bool"
	case "Source":
		return "source"
	case "PublicKey":
		return "pubkey"
	case "*Endpoints":
		return "endpoints"
	case "ID", "IRI", "ActivityVocabularyType", "MimeType", "LangRef", "string":
		return "string:" + s
	default:
		return "?unknown: " + s
	}
}

func (x *Extractor) genCodec() string {
	var sb strings.Builder
	sb.WriteString(header)
	sb.WriteString("namespace APModel.Generated\n\nstructure CodecFn where\n  fn : String\n  rows : List (String × String × String × String)\n  delegates : List String\n  other : List String\n  deriving Repr, DecidableEq\n\n")
	// schema
	structs := []string{"Object", "Actor", "Activity", "IntransitiveActivity", "Question", "Collection", "OrderedCollection", "CollectionPage", "OrderedCollectionPage", "Place", "Profile", "Relationship", "Tombstone", "Link", "Source", "PublicKey", "Endpoints"}
	sb.WriteString("/-- struct definitions: (struct, [(field, kind, jsonld term)]) — the declared vocabulary terms -/\ndef schema : List (String × List (String × String × String)) := [\n")
	for i, sn := range structs {
		var rows []string
		for _, f := range x.files {
			for _, d := range f.Decls {
				gd, ok := d.(*ast.GenDecl)
				if !ok || gd.Tok != token.TYPE {
					continue
				}
				for _, sp := range gd.Specs {
					ts := sp.(*ast.TypeSpec)
					st, ok := ts.Type.(*ast.StructType)
					if !ok || ts.Name.Name != sn {
						continue
					}
					for _, fl := range st.Fields.List {
						term := ""
						if fl.Tag != nil {
							tag := strings.Trim(fl.Tag.Value, "`")
							if j := strings.Index(tag, `jsonld:"`); j >= 0 {
								rest := tag[j+len(`jsonld:"`):]
								term = strings.Split(strings.SplitN(rest, `"`, 2)[0], ",")[0]
							}
						}
						for _, nm := range fl.Names {
							rows = append(rows, fmt.Sprintf("(%s, %s, %s)", lstr(nm.Name), lstr(x.schemaKind(fl.Type)), lstr(term)))
						}
					}
				}
			}
		}
		sep := ","
		if i == len(structs)-1 {
			sep = ""
		}
		fmt.Fprintf(&sb, "  (%s, [%s])%s\n", lstr(sn), strings.Join(rows, ", "), sep)
	}
	sb.WriteString("]\n\n")
	var jw, jr, gm, gu []codecFn
	var keys []string
	for k := range x.funcs {
		keys = append(keys, k)
	}
	sort.Strings(keys)
	for _, k := range keys {
		fd := x.funcs[k]
		if fd.Body == nil {
			continue
		}
		switch {
		case strings.HasSuffix(k, ".MarshalJSON") || (strings.HasPrefix(k, "JSONWrite") && strings.HasSuffix(k, "Value") && k != "JSONWriteValue" && k != "JSONWriteStringValue" && k != "JSONWriteItemCollectionValue"):
			f := x.jsonWriteFn(k, fd)
			if len(f.rows)+len(f.delegates) > 0 {
				jw = append(jw, f)
			}
		case strings.HasPrefix(k, "JSONLoad") && k != "JSONLoadItem", k == "JSONGetActorEndpoints", k == "GetAPSource":
			jr = append(jr, x.jsonReadFn(k, fd))
		case strings.HasSuffix(k, ".UnmarshalJSON"):
			f := codecFn{name: k}
			ast.Inspect(fd.Body, func(m ast.Node) bool {
				if c, ok := m.(*ast.CallExpr); ok {
					if id, ok := c.Fun.(*ast.Ident); ok && (strings.HasPrefix(id.Name, "JSONLoad") || id.Name == "GetAPSource" || id.Name == "JSONGetActorEndpoints") {
						f.delegates = append(f.delegates, id.Name)
					}
				}
				return true
			})
			if len(f.delegates) > 0 {
				jr = append(jr, f)
			}
		case strings.HasSuffix(k, ".GobEncode") && k != "Source.GobEncode" && k != "PublicKey.GobEncode":
			if f := x.gobMapFn(k, fd); len(f.rows)+len(f.delegates) > 0 {
				gm = append(gm, f)
			}
		case strings.HasSuffix(k, ".GobDecode") && k != "Source.GobDecode" && k != "PublicKey.GobDecode":
			if f := x.gobUnmapFn(k, fd); len(f.rows)+len(f.delegates) > 0 {
				gu = append(gu, f)
			}
		case strings.HasPrefix(k, "map") && strings.HasSuffix(k, "Properties"), k == "Source.GobEncode", k == "PublicKey.GobEncode":
			gm = append(gm, x.gobMapFn(k, fd))
		case strings.HasPrefix(k, "unmap") && strings.HasSuffix(k, "Properties"), k == "Source.GobDecode", k == "PublicKey.GobDecode":
			gu = append(gu, x.gobUnmapFn(k, fd))
		}
	}
	emitCodecFns(&sb, "jsonWrite", "JSON writers: rows (term, field, helper, guard)", jw)
	emitCodecFns(&sb, "jsonRead", "JSON loaders: rows (field, helper, term, condition)", jr)
	emitCodecFns(&sb, "gobMap", "gob property maps: rows (key, field, encoder, guard)", gm)
	emitCodecFns(&sb, "gobUnmap", "gob property unmaps: rows (key, field, decoder, -)", gu)
	sb.WriteString("end APModel.Generated\n")
	return sb.String()
}

func init() {
	moreGens = append(moreGens, func(x *Extractor) map[string]func() string {
		return map[string]func() string{"Codec.lean": x.genCodec}
	})
}
