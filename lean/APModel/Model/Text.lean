/-
Byte-level model of the text path of the JSON codec (C06, C02):

  write : `stringBytes` (natural_language_values.go), with escapeHTML = false
  read  : fastjson's string scanner + `unescapeStringBestEffort` (what Value.GetStringBytes returns)

Bytes are natural numbers (the driver feeds 0..255); all definitions are total, by structural
recursion on a fuel argument that the entry points set from the length.
-/
namespace APModel.Text

abbrev Bytes := List Nat

def quote : Nat := 34       -- '"'
def bslash : Nat := 92      -- '\\'

/-- safeSet of the Go source: printable ASCII and DEL, except the quote and the backslash -/
def safe (b : Nat) : Bool := 32 ≤ b && b < 128 && b != quote && b != bslash

def hexd (n : Nat) : Nat := if n < 10 then 48 + n else 87 + n   -- "0123456789abcdef"[n]

/-- what `stringBytes` writes for an ASCII byte that is not in the safe set -/
def escAscii (b : Nat) : Bytes :=
  if b = bslash then [bslash, bslash]
  else if b = quote then [bslash, quote]
  else if b = 10 then [bslash, 110]          -- \n
  else if b = 13 then [bslash, 114]          -- \r
  else if b = 9 then [bslash, 116]           -- \t
  else [bslash, 117, 48, 48, hexd (b / 16), hexd (b % 16)]   -- \u00XX

def cont (b : Nat) : Bool := 128 ≤ b && b ≤ 191

def lo3 (b0 : Nat) : Nat := if b0 = 224 then 160 else 128
def hi3 (b0 : Nat) : Nat := if b0 = 237 then 159 else 191
def lo4 (b0 : Nat) : Nat := if b0 = 240 then 144 else 128
def hi4 (b0 : Nat) : Nat := if b0 = 244 then 143 else 191

/-- size of the valid UTF-8 sequence at the head of the input whose first byte is >= 0x80, 0 when the
head is not a valid sequence (Go's utf8.DecodeRune answering RuneError, 1) -/
def runeLen : Bytes → Nat
  | b0 :: b1 :: rest =>
    if 194 ≤ b0 ∧ b0 ≤ 223 then (if cont b1 then 2 else 0)
    else if 224 ≤ b0 ∧ b0 ≤ 239 then
      match rest with
      | b2 :: _ => if lo3 b0 ≤ b1 ∧ b1 ≤ hi3 b0 ∧ cont b2 then 3 else 0
      | [] => 0
    else if 240 ≤ b0 ∧ b0 ≤ 244 then
      match rest with
      | b2 :: b3 :: _ => if lo4 b0 ≤ b1 ∧ b1 ≤ hi4 b0 ∧ cont b2 ∧ cont b3 then 4 else 0
      | _ => 0
    else 0
  | _ => 0

def lineSep (s : Bytes) : Option Nat :=
  match s with
  | 226 :: 128 :: 168 :: _ => some 56   -- U+2028 -> '8'
  | 226 :: 128 :: 169 :: _ => some 57   -- U+2029 -> '9'
  | _ => none

/-- body of the string `stringBytes` writes (without the surrounding quotes) -/
def escF : Nat → Bytes → Bytes
  | 0, _ => []
  | _ + 1, [] => []
  | n + 1, b :: r =>
    if b < 128 then
      (if safe b then b :: escF n r else escAscii b ++ escF n r)
    else if runeLen (b :: r) = 0 then
      [bslash, 117, 102, 102, 102, 100] ++ escF n r          -- U+FFFD written as an escape, one byte consumed
    else
      match lineSep (b :: r) with
      | some d => [bslash, 117, 50, 48, 50, d] ++ escF n (r.drop 2)   -- U+2028 / U+2029 escaped
      | none => (b :: r).take (runeLen (b :: r)) ++ escF n ((b :: r).drop (runeLen (b :: r)))

def esc (s : Bytes) : Bytes := escF s.length s

/-- valid UTF-8, by the same walk -/
def validF : Nat → Bytes → Bool
  | 0, s => s.isEmpty
  | _ + 1, [] => true
  | n + 1, b :: r =>
    if b < 128 then validF n r
    else if runeLen (b :: r) = 0 then false
    else validF n ((b :: r).drop (runeLen (b :: r)))

def valid (s : Bytes) : Bool := validF s.length s

/-! ### reading -/

def hexVal (c : Nat) : Option Nat :=
  if 48 ≤ c ∧ c ≤ 57 then some (c - 48)
  else if 97 ≤ c ∧ c ≤ 102 then some (c - 87)
  else if 65 ≤ c ∧ c ≤ 70 then some (c - 55)
  else none

def hex4 (a b c d : Nat) : Option Nat :=
  match hexVal a, hexVal b, hexVal c, hexVal d with
  | some x, some y, some z, some w => some (((x * 16 + y) * 16 + z) * 16 + w)
  | _, _, _, _ => none

/-- Go's string(rune): UTF-8 of a code point, U+FFFD for surrogates and out-of-range values -/
def utf8 (x : Nat) : Bytes :=
  if x < 128 then [x]
  else if x < 2048 then [192 + x / 64, 128 + x % 64]
  else if (55296 ≤ x ∧ x ≤ 57343) ∨ x > 1114111 then [239, 191, 189]
  else if x < 65536 then [224 + x / 4096, 128 + (x / 64) % 64, 128 + x % 64]
  else [240 + x / 262144, 128 + (x / 4096) % 64, 128 + (x / 64) % 64, 128 + x % 64]

def isSurrogate (x : Nat) : Bool := 55296 ≤ x && x < 57344

/-- utf16.DecodeRune -/
def decodeSurrogates (r1 r2 : Nat) : Nat :=
  if 55296 ≤ r1 ∧ r1 < 56320 ∧ 56320 ≤ r2 ∧ r2 < 57344 then (r1 - 55296) * 1024 + (r2 - 56320) + 65536
  else 65533

/-- fastjson's unescapeStringBestEffort -/
def unescF : Nat → Bytes → Bytes
  | 0, _ => []
  | _ + 1, [] => []
  | n + 1, b :: r =>
    if b ≠ bslash then b :: unescF n r
    else
      match r with
      | [] => []                                   -- a lone trailing backslash is dropped
      | c :: r' =>
        if c = quote then quote :: unescF n r'
        else if c = bslash then bslash :: unescF n r'
        else if c = 47 then 47 :: unescF n r'
        else if c = 98 then 8 :: unescF n r'
        else if c = 102 then 12 :: unescF n r'
        else if c = 110 then 10 :: unescF n r'
        else if c = 114 then 13 :: unescF n r'
        else if c = 116 then 9 :: unescF n r'
        else if c = 117 then
          match r' with
          | h1 :: h2 :: h3 :: h4 :: r'' =>
            match hex4 h1 h2 h3 h4 with
            | none => bslash :: 117 :: unescF n r'
            | some x =>
              if !isSurrogate x then utf8 x ++ unescF n r''
              else
                match r'' with
                | 92 :: 117 :: g1 :: g2 :: g3 :: g4 :: r3 =>
                  match hex4 g1 g2 g3 g4 with
                  | none => bslash :: 117 :: h1 :: h2 :: h3 :: h4 :: unescF n r''
                  | some y => utf8 (decodeSurrogates x y) ++ unescF n r3
                | _ => bslash :: 117 :: h1 :: h2 :: h3 :: h4 :: unescF n r''
          | _ => bslash :: 117 :: unescF n r'
        else bslash :: c :: unescF n r'

def unesc (s : Bytes) : Bytes := unescF s.length s

/-- the scanner: the raw string up to the closing quote, and what follows it.  A backslash takes the
next byte with it (the implementation counts the backslashes in front of a quote instead; the two
agree on every input, which the correspondence checks). -/
def scanF : Nat → Bytes → Option (Bytes × Bytes)
  | 0, _ => none
  | _ + 1, [] => none
  | n + 1, b :: r =>
    if b = quote then some ([], r)
    else if b = bslash then
      match r with
      | [] => none
      | c :: r' => (scanF n r').map fun (raw, rest) => (bslash :: c :: raw, rest)
    else (scanF n r).map fun (raw, rest) => (b :: raw, rest)

def scan (s : Bytes) : Option (Bytes × Bytes) := scanF (s.length + 1) s

/-- the whole text path: write a text, then read the document that starts with it -/
def writeText (s : Bytes) : Bytes := quote :: esc s ++ [quote]

def readText (doc : Bytes) : Option (Bytes × Bytes) :=
  match doc with
  | 34 :: r => (scan r).map fun (raw, rest) => (unesc raw, rest)
  | _ => none

end APModel.Text
