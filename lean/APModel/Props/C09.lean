import APModel.Model.Equal
namespace APModel.Equal
end APModel.Equal
