/-
C11 — Clean() leaves no private recipients in what gets serialised.
Model: `Model/Clean.lean` over the shared value trees, driven by `Generated/Clean.lean`
(regenerated from the source on every run); tied to the code by the `clean` correspondence op.
-/
import APModel.Model.Clean

namespace APModel.Clean
open APModel APModel.Generated

/-! ### what "no private recipients along the walk" means -/

/-- a truncated field shows no entries (a field that is not a list has none to show) -/
def noEntries : FVal → Bool
  | .items .nil => true
  | .items _ => false
  | _ => true

mutual
/-- no pointer-embedded object reachable along the walked properties (and through lists) carries a
non-empty truncated field. -/
def cleanOK (c : Cfg) : Item → Bool
  | .node k true fs => !has c.T c.H k || fieldsOK c (truncOf c.T k) (walkOf c.T k) fs
  | .coll _ l => membersOK c l
  | _ => true
def membersOK (c : Cfg) : Items → Bool
  | .nil => true
  | .cons i r => cleanOK c i && membersOK c r
def fieldsOK (c : Cfg) (trunc walk : List String) : Fields → Bool
  | .nil => true
  | .cons n v r =>
    (!trunc.contains n || noEntries v) &&
    (trunc.contains n || !walk.contains n || fvalOK c v) && fieldsOK c trunc walk r
def fvalOK (c : Cfg) : FVal → Bool
  | .item i => cleanOK c i
  | .items l => membersOK c l
  | _ => true
end

mutual
/-- "all other properties are left exactly as they were": `frameOK c x y` allows `y` to differ from
`x` only in the truncated fields of pointer-embedded objects on the walk, and in nil-like list
members having become the nil item; everything else must be structurally equal. -/
def frameOK (c : Cfg) : Item → Item → Bool
  | .node k true fs, .node k' true fs' =>
    k == k' && (if has c.T c.H k then frameFields c (truncOf c.T k) (walkOf c.T k) fs fs' else Fields.beq fs fs')
  | .coll p l, .coll p' l' => p == p' && frameMembers c l l'
  | x, y => Item.beq x y
def frameMembers (c : Cfg) : Items → Items → Bool
  | .nil, .nil => true
  | .cons i r, .cons i' r' =>
    (if i.isNilLike then Item.beq i' .nil else frameOK c i i') && frameMembers c r r'
  | _, _ => false
def frameFields (c : Cfg) (trunc walk : List String) : Fields → Fields → Bool
  | .nil, .nil => true
  | .cons n v r, .cons n' v' r' =>
    n == n' && (trunc.contains n || (if walk.contains n then frameFVal c v v' else FVal.beq v v')) &&
      frameFields c trunc walk r r'
  | _, _ => false
def frameFVal (c : Cfg) : FVal → FVal → Bool
  | .item i, .item i' => frameOK c i i'
  | .items l, .items l' => frameMembers c l l'
  | v, v' => FVal.beq v v'
end

/-! ### property theorems (for every configuration table, hence for the regenerated one) -/

mutual
theorem cleanOK_clean (c : Cfg) : ∀ x : Item, cleanOK c (cleanItem c x) = true
  | .node k true fs => by
    by_cases h : has c.T c.H k = true
    · simp [cleanItem, cleanOK, h, fieldsOK_clean c (truncOf c.T k) (walkOf c.T k) fs]
    · simp [cleanItem, cleanOK, h]
  | .node k false fs => by simp [cleanItem, cleanOK]
  | .coll p l => by simp [cleanItem, cleanOK, membersOK_clean c l]
  | .nil => by simp [cleanItem, cleanOK]
  | .typedNil k => by simp [cleanItem, cleanOK]
  | .collNil p => by simp [cleanItem, cleanOK]
  | .irisNil => by simp [cleanItem, cleanOK]
  | .iri s => by simp [cleanItem, cleanOK]
  | .iris l => by simp [cleanItem, cleanOK]
theorem membersOK_clean (c : Cfg) : ∀ l : Items, membersOK c (cleanMembers c l) = true
  | .nil => by simp [cleanMembers, membersOK]
  | .cons i r => by
    simp only [cleanMembers, membersOK, membersOK_clean c r, Bool.and_true]
    split
    · simp [cleanOK]
    · exact cleanOK_clean c i
theorem fieldsOK_clean (c : Cfg) (trunc walk : List String) :
    ∀ fs : Fields, fieldsOK c trunc walk (cleanFields c trunc walk fs) = true
  | .nil => by simp [cleanFields, fieldsOK]
  | .cons n v r => by
    simp only [cleanFields, fieldsOK, fieldsOK_clean c trunc walk r, Bool.and_true]
    by_cases ht : n ∈ trunc
    · have : noEntries (truncFVal v) = true := by cases v <;> simp [truncFVal, noEntries]
      simp [ht, this]
    · by_cases hw : n ∈ walk
      · simp [ht, hw, fvalOK_clean c v]
      · simp [ht, hw]
theorem fvalOK_clean (c : Cfg) : ∀ v : FVal, fvalOK c (cleanFVal c v) = true
  | .item i => by simp [cleanFVal, fvalOK, cleanOK_clean c i]
  | .items l => by simp [cleanFVal, fvalOK, membersOK_clean c l]
  | .nlv _ => by simp [cleanFVal, fvalOK]
  | .time _ _ _ => by simp [cleanFVal, fvalOK]
  | .dur _ => by simp [cleanFVal, fvalOK]
  | .str _ => by simp [cleanFVal, fvalOK]
  | .dec6 _ => by simp [cleanFVal, fvalOK]
  | .int _ => by simp [cleanFVal, fvalOK]
  | .uint _ => by simp [cleanFVal, fvalOK]
  | .bool _ => by simp [cleanFVal, fvalOK]
  | .record _ => by simp [cleanFVal, fvalOK]
end

mutual
theorem frameOK_clean (c : Cfg) : ∀ x : Item, frameOK c x (cleanItem c x) = true
  | .node k true fs => by
    by_cases h : has c.T c.H k = true
    · simp [cleanItem, frameOK, h, frameFields_clean c (truncOf c.T k) (walkOf c.T k) fs]
    · simp [cleanItem, frameOK, h, Fields.beq_refl]
  | .node k false fs => by simp [cleanItem, frameOK, Item.beq_refl]
  | .coll p l => by simp [cleanItem, frameOK, frameMembers_clean c l]
  | .nil => by simp [cleanItem, frameOK, Item.beq_refl]
  | .typedNil k => by simp [cleanItem, frameOK, Item.beq_refl]
  | .collNil p => by simp [cleanItem, frameOK, Item.beq_refl]
  | .irisNil => by simp [cleanItem, frameOK, Item.beq_refl]
  | .iri s => by simp [cleanItem, frameOK, Item.beq_refl]
  | .iris l => by simp [cleanItem, frameOK, Item.beq_refl]
theorem frameMembers_clean (c : Cfg) : ∀ l : Items, frameMembers c l (cleanMembers c l) = true
  | .nil => by simp [cleanMembers, frameMembers]
  | .cons i r => by
    simp only [cleanMembers, frameMembers, frameMembers_clean c r, Bool.and_true]
    by_cases h : i.isNilLike = true
    · simp [h, Item.beq]
    · simp [h, frameOK_clean c i]
theorem frameFields_clean (c : Cfg) (trunc walk : List String) :
    ∀ fs : Fields, frameFields c trunc walk fs (cleanFields c trunc walk fs) = true
  | .nil => by simp [cleanFields, frameFields]
  | .cons n v r => by
    simp only [cleanFields, frameFields, frameFields_clean c trunc walk r, Bool.and_true, beq_self_eq_true, Bool.true_and]
    by_cases ht : n ∈ trunc
    · simp [ht]
    · by_cases hw : n ∈ walk
      · simp [ht, hw, frameFVal_clean c v]
      · simp [ht, hw, FVal.beq_refl]
theorem frameFVal_clean (c : Cfg) : ∀ v : FVal, frameFVal c v (cleanFVal c v) = true
  | .item i => by simp [cleanFVal, frameFVal, frameOK_clean c i]
  | .items l => by simp [cleanFVal, frameFVal, frameMembers_clean c l]
  | .nlv _ => by simp [cleanFVal, frameFVal, FVal.beq_refl]
  | .time _ _ _ => by simp [cleanFVal, frameFVal, FVal.beq_refl]
  | .dur _ => by simp [cleanFVal, frameFVal, FVal.beq_refl]
  | .str _ => by simp [cleanFVal, frameFVal, FVal.beq_refl]
  | .dec6 _ => by simp [cleanFVal, frameFVal, FVal.beq_refl]
  | .int _ => by simp [cleanFVal, frameFVal, FVal.beq_refl]
  | .uint _ => by simp [cleanFVal, frameFVal, FVal.beq_refl]
  | .bool _ => by simp [cleanFVal, frameFVal, FVal.beq_refl]
  | .record _ => by simp [cleanFVal, frameFVal, FVal.beq_refl]
end

/-- After Clean(), no object embedded by pointer along the walked properties, recursively and
through lists, carries a non-empty truncated (bto/bcc) field — for every value tree. -/
theorem C11_no_private (x : Item) : cleanOK generatedCfg (cleanItem generatedCfg x) = true :=
  cleanOK_clean generatedCfg x

/-- …and everything else is left exactly as it was. -/
theorem C11_frame (x : Item) : frameOK generatedCfg x (cleanItem generatedCfg x) = true :=
  frameOK_clean generatedCfg x

/-! ### obligations on the regenerated table: the walk is the one the property prescribes -/

def objectKinds : List Kind :=
  [.object, .actor, .activity, .intransitive, .question, .collection, .orderedCollection,
   .collectionPage, .orderedCollectionPage, .place, .profile, .relationship, .tombstone]

def requiredWalk : List String :=
  ["Audience", "Attachment", "Icon", "Image", "Context", "Generator", "AttributedTo", "Preview", "Tag"]

/-- every object-family type is in the method set of HasRecipients, truncates bto and bcc, and
walks the nine prescribed properties; the transitive activity also walks object, actor, target. -/
theorem C11_table :
    objectKinds.all (fun k =>
      has cleanRows hasRecipientsTypes k &&
      ["Bto", "BCC"].all (fun f => (truncOf cleanRows k).contains f) &&
      requiredWalk.all (fun f => (walkOf cleanRows k).contains f)) = true ∧
    ["Object", "Actor", "Target"].all (fun f => (walkOf cleanRows .activity).contains f) = true ∧
    hasRecipientsTypes.contains "ItemCollection" = true ∧
    cleanRows.all (fun r => r.other.isEmpty) = true := by
  decide

/-- nothing is walked that would clean more than the statement allows to change: the truncated
fields are exactly bto and bcc. -/
theorem C11_trunc_exact :
    objectKinds.all (fun k => (truncOf cleanRows k).all (fun f => f == "Bto" || f == "BCC")) = true := by
  decide

/-! non-vacuity: an activity whose attachment's attributedTo carries bcc -/
private def sI (s : String) : IRI.Str := s.toUTF8.toList
private def deep : Item :=
  .node .activity true (.cons "Bto" (.items (.cons (.iri (sI "https://e.com/x")) .nil))
    (.cons "Object" (.item (.node .object true
      (.cons "Attachment" (.item (.node .actor true (.cons "BCC" (.items (.cons (.iri (sI "https://e.com/y")) .nil)) .nil))) .nil))) .nil))
example : cleanOK generatedCfg deep = false := by decide +kernel
example : cleanOK generatedCfg (cleanItem generatedCfg deep) = true := by decide +kernel

end APModel.Clean
