/- helper lemmas for the text model (no property statements) -/
import APModel.Model.Text

namespace APModel.Text


theorem lo3_ge (b : Nat) : 128 ≤ lo3 b := by unfold lo3; split <;> omega
theorem lo4_ge (b : Nat) : 128 ≤ lo4 b := by unfold lo4; split <;> omega
theorem cont_ge (b : Nat) (h : cont b = true) : 128 ≤ b := by
  simp only [cont, Bool.and_eq_true, decide_eq_true_eq] at h; omega

/-- a valid multi-byte head consists of bytes >= 0x80 and fits in the input -/
theorem runeLen_bytes (s : Bytes) (h : runeLen s ≠ 0) :
    runeLen s ≤ s.length ∧ 2 ≤ runeLen s ∧ ∀ x ∈ s.take (runeLen s), 128 ≤ x := by
  match s with
  | [] => simp [runeLen] at h
  | [_] => simp [runeLen] at h
  | b0 :: b1 :: rest =>
    by_cases h2 : 194 ≤ b0 ∧ b0 ≤ 223
    · by_cases hc : cont b1 = true
      · have : runeLen (b0 :: b1 :: rest) = 2 := by simp [runeLen, h2, hc]
        rw [this]
        refine ⟨by simp, by omega, ?_⟩
        intro x hx
        have := cont_ge b1 hc
        simp at hx
        rcases hx with rfl | rfl <;> omega
      · exfalso; apply h; simp [runeLen, h2, hc]
    · by_cases h3 : 224 ≤ b0 ∧ b0 ≤ 239
      · match rest with
        | [] => exfalso; apply h; simp [runeLen, h2, h3]
        | b2 :: rest' =>
          by_cases hc : lo3 b0 ≤ b1 ∧ b1 ≤ hi3 b0 ∧ cont b2 = true
          · have : runeLen (b0 :: b1 :: b2 :: rest') = 3 := by simp [runeLen, h2, h3, hc]
            rw [this]
            refine ⟨by simp, by omega, ?_⟩
            intro x hx
            have := cont_ge b2 hc.2.2
            have := lo3_ge b0
            simp at hx
            rcases hx with rfl | rfl | rfl <;> omega
          · exfalso; apply h; simp [runeLen, h2, h3, hc]
      · by_cases h4 : 240 ≤ b0 ∧ b0 ≤ 244
        · match rest with
          | [] => exfalso; apply h; simp [runeLen, h2, h3, h4]
          | [_] => exfalso; apply h; simp [runeLen, h2, h3, h4]
          | b2 :: b3 :: rest' =>
            by_cases hc : lo4 b0 ≤ b1 ∧ b1 ≤ hi4 b0 ∧ cont b2 = true ∧ cont b3 = true
            · have : runeLen (b0 :: b1 :: b2 :: b3 :: rest') = 4 := by simp [runeLen, h2, h3, h4, hc]
              rw [this]
              refine ⟨by simp, by omega, ?_⟩
              intro x hx
              have := cont_ge b2 hc.2.2.1
              have := cont_ge b3 hc.2.2.2
              have := lo4_ge b0
              simp at hx
              rcases hx with rfl | rfl | rfl | rfl <;> omega
            · exfalso; apply h; simp [runeLen, h2, h3, h4, hc]
        · exfalso; apply h; simp [runeLen, h2, h3, h4]



/-- bytes other than the backslash are copied by the unescaper -/
theorem unescF_copy (c X : Bytes) (hc : ∀ x ∈ c, x ≠ bslash) (m : Nat) :
    unescF (m + c.length) (c ++ X) = c ++ unescF m X := by
  induction c with
  | nil => simp
  | cons a c ih =>
    have ha : a ≠ bslash := hc a List.mem_cons_self
    have : m + (a :: c).length = (m + c.length) + 1 := by simp; omega
    rw [this]
    simp only [List.cons_append, unescF, ha, ne_eq, not_false_eq_true, if_true]
    rw [ih (fun x hx => hc x (List.mem_cons_of_mem _ hx))]

theorem hex_low : ∀ b, b < 32 → hex4 48 48 (hexd (b / 16)) (hexd (b % 16)) = some b := by decide

theorem unsafe_ascii (b : Nat) (h : b < 128) (hs : safe b = false) : b < 32 ∨ b = quote ∨ b = bslash := by
  simp only [safe, quote, bslash, Bool.and_eq_false_iff, decide_eq_false_iff_not, bne_eq_false_iff_eq] at hs
  simp only [quote, bslash]
  omega

theorem unescF_escAscii (b : Nat) (h : b < 128) (hs : safe b = false) (m : Nat) (X : Bytes) :
    unescF (m + 1) (escAscii b ++ X) = b :: unescF m X := by
  rcases unsafe_ascii b h hs with hb | hb | hb
  · -- control characters
    by_cases h10 : b = 10
    · subst h10; simp [escAscii, unescF, bslash, quote]
    · by_cases h13 : b = 13
      · subst h13; simp [escAscii, unescF, bslash, quote]
      · by_cases h9 : b = 9
        · subst h9; simp [escAscii, unescF, bslash, quote]
        · have hq : b ≠ quote := by simp [quote]; omega
          have hb2 : b ≠ bslash := by simp [bslash]; omega
          simp only [escAscii, hb2, hq, h10, h13, h9, if_false, List.cons_append, List.nil_append]
          simp only [unescF, bslash, quote, ne_eq, not_true_eq_false, if_false, hex_low b hb]
          have hsur : isSurrogate b = false := by simp [isSurrogate]; omega
          have hu : utf8 b = [b] := by simp [utf8]; omega
          simp [hsur, hu]
  · subst hb; simp [escAscii, unescF, bslash, quote]
  · subst hb; simp [escAscii, unescF, bslash, quote]



theorem lineSep_some (s : Bytes) (d : Nat) (h : lineSep s = some d) :
    ∃ t, (s = 226 :: 128 :: 168 :: t ∧ d = 56) ∨ (s = 226 :: 128 :: 169 :: t ∧ d = 57) := by
  unfold lineSep at h
  split at h
  · rename_i t; exact ⟨t, Or.inl ⟨rfl, by cases h; rfl⟩⟩
  · rename_i t; exact ⟨t, Or.inr ⟨rfl, by cases h; rfl⟩⟩
  · cases h

theorem escAscii_len (b : Nat) : 1 ≤ (escAscii b).length := by
  unfold escAscii; repeat (first | split | simp)

/-- T1, with explicit fuels -/
theorem unesc_esc_F : ∀ (n : Nat) (s : Bytes), s.length ≤ n → validF n s = true →
    ∀ m, (escF n s).length ≤ m → unescF m (escF n s) = s := by
  intro n
  induction n with
  | zero =>
    intro s hl _ m _
    have : s = [] := List.length_eq_zero_iff.mp (by omega)
    subst this
    cases m <;> simp [escF, unescF]
  | succ n ih =>
    intro s hl hv m hm
    match s with
    | [] => cases m <;> simp [escF, unescF]
    | b :: r =>
      have hlr : r.length ≤ n := by simp at hl; omega
      by_cases hb : b < 128
      · simp only [validF, hb, if_true] at hv
        by_cases hs : safe b = true
        · simp only [escF, hb, hs, if_true] at hm ⊢
          have hne : b ≠ bslash := by
            simp only [safe, Bool.and_eq_true, bne_iff_ne, ne_eq] at hs; exact hs.2
          match m with
          | 0 => simp at hm
          | m + 1 =>
            simp only [unescF, hne, ne_eq, not_false_eq_true, if_true]
            rw [ih r hlr hv m (by simpa using hm)]
        · have hs' : safe b = false := by simpa using hs
          simp only [escF, hb, hs', if_true, Bool.false_eq_true, if_false] at hm ⊢
          have := escAscii_len b
          match m with
          | 0 => simp only [List.length_append] at hm; omega
          | m + 1 =>
            rw [unescF_escAscii b hb hs' m]
            rw [ih r hlr hv m (by simp only [List.length_append] at hm; omega)]
      · by_cases hk : runeLen (b :: r) = 0
        · simp [validF, hb, hk] at hv
        · simp only [validF, hb, hk, if_false] at hv
          obtain ⟨hkl, hk2, hbytes⟩ := runeLen_bytes (b :: r) hk
          have hdl : ((b :: r).drop (runeLen (b :: r))).length ≤ n := by
            have : (b :: r).length = r.length + 1 := rfl
            simp only [List.length_drop]; omega
          cases hls : lineSep (b :: r) with
          | some d =>
            simp only [escF, hb, hk, if_false, hls] at hm ⊢
            obtain ⟨t, ht⟩ := lineSep_some _ _ hls
            rcases ht with ⟨hst, hd⟩ | ⟨hst, hd⟩
            all_goals
              have hr : r = 128 :: (d + 112) :: t := by
                have := List.tail_eq_of_cons_eq hst; subst hd; simpa using this
              have hk3 : runeLen (b :: r) = 3 := by
                rw [hst]; simp [runeLen, lo3, hi3, cont]
              rw [hk3] at hv
              have hdrop : (b :: r).drop 3 = r.drop 2 := by simp
              rw [hdrop] at hv
              have hlt : (r.drop 2).length ≤ n := by simp only [List.length_drop]; omega
              subst hd
              match m with
              | 0 => simp at hm
              | m + 1 =>
                simp only [List.cons_append, List.nil_append, unescF, bslash, quote, ne_eq, not_true_eq_false, if_false]
                have hE := ih (r.drop 2) hlt hv m (by simp at hm ⊢; omega)
                have hb226 : b = 226 := by injection hst
                subst hb226
                rw [hr] at hE ⊢
                simp [hex4, hexVal, isSurrogate, utf8] at hE ⊢
                exact hE
          | none =>
            simp only [escF, hb, hk, if_false, hls] at hm ⊢
            have hne : ∀ x ∈ (b :: r).take (runeLen (b :: r)), x ≠ bslash := by
              intro x hx; have := hbytes x hx; simp [bslash]; omega
            have hlen : ((b :: r).take (runeLen (b :: r))).length = runeLen (b :: r) := by
              simp only [List.length_take]; omega
            simp only [List.length_append, hlen] at hm
            obtain ⟨m', rfl⟩ : ∃ m', m = m' + ((b :: r).take (runeLen (b :: r))).length :=
              ⟨m - runeLen (b :: r), by rw [hlen]; omega⟩
            rw [unescF_copy _ _ hne m']
            rw [ih _ hdl hv m' (by rw [hlen] at hm; omega)]
            exact List.take_append_drop _ _



theorem scanF_mono : ∀ (m : Nat) (s : Bytes) (x : Bytes × Bytes), scanF m s = some x → scanF (m + 1) s = some x := by
  intro m
  induction m with
  | zero => intro s x h; simp [scanF] at h
  | succ m ih =>
    intro s x h
    match s with
    | [] => simp [scanF] at h
    | b :: r =>
      simp only [scanF] at h ⊢
      by_cases hq : b = quote
      · simpa [hq] using h
      · simp only [hq, if_false] at h ⊢
        by_cases hb : b = bslash
        · simp only [hb, if_true] at h ⊢
          match r with
          | [] => simp at h
          | c :: r' =>
            simp only at h ⊢
            cases hs : scanF m r' with
            | none => simp [hs] at h
            | some y => rw [ih r' y hs]; simpa [hs] using h
        · simp only [hb, if_false] at h ⊢
          cases hs : scanF m r with
          | none => simp [hs] at h
          | some y => rw [ih r y hs]; simpa [hs] using h

theorem scanF_mono_le (m k : Nat) (s : Bytes) (x : Bytes × Bytes) (h : scanF m s = some x) (hk : m ≤ k) :
    scanF k s = some x := by
  induction k with
  | zero => have : m = 0 := by omega
            subst this; exact h
  | succ k ih =>
    by_cases hm : m = k + 1
    · subst hm; exact h
    · exact scanF_mono k s x (ih (by omega))

def plain (x : Nat) : Prop := x ≠ quote ∧ x ≠ bslash

theorem S_copy (c Y raw rest : Bytes) (m : Nat) (hc : ∀ x ∈ c, plain x) (h : scanF m Y = some (raw, rest)) :
    scanF (m + c.length) (c ++ Y) = some (c ++ raw, rest) := by
  induction c with
  | nil => simpa using h
  | cons a c ih =>
    have ha := hc a List.mem_cons_self
    have : m + (a :: c).length = (m + c.length) + 1 := by simp; omega
    rw [this]
    simp only [List.cons_append, scanF, ha.1, ha.2, if_false]
    rw [ih (fun x hx => hc x (List.mem_cons_of_mem _ hx))]
    simp

theorem S_pair (c : Nat) (Y raw rest : Bytes) (m : Nat) (h : scanF m Y = some (raw, rest)) :
    scanF (m + 2) (bslash :: c :: Y) = some (bslash :: c :: raw, rest) := by
  apply scanF_mono
  simp only [scanF, bslash, quote]
  simp [h]

theorem hexd_plain (n : Nat) (h : n < 16) : plain (hexd n) := by
  unfold plain hexd quote bslash; split <;> omega

theorem S_u4 (a b c d : Nat) (ha : plain a) (hb : plain b) (hc : plain c) (hd : plain d)
    (Y raw rest : Bytes) (m : Nat) (h : scanF m Y = some (raw, rest)) :
    scanF (m + 6) (bslash :: 117 :: a :: b :: c :: d :: Y) = some (bslash :: 117 :: a :: b :: c :: d :: raw, rest) := by
  have h4 := S_copy [a, b, c, d] Y raw rest m (by
    intro x hx; simp at hx; rcases hx with rfl | rfl | rfl | rfl <;> assumption) h
  exact S_pair 117 _ _ rest (m + 4) h4

theorem S_escAscii (b : Nat) (hb : b < 128) (Y raw rest : Bytes) (m : Nat) (h : scanF m Y = some (raw, rest)) :
    scanF (m + (escAscii b).length) (escAscii b ++ Y) = some (escAscii b ++ raw, rest) := by
  unfold escAscii
  split
  · exact S_pair _ _ _ _ m h
  · split
    · exact S_pair _ _ _ _ m h
    · split
      · exact S_pair _ _ _ _ m h
      · split
        · exact S_pair _ _ _ _ m h
        · split
          · exact S_pair _ _ _ _ m h
          · exact S_u4 48 48 _ _ (by simp [plain, quote, bslash]) (by simp [plain, quote, bslash])
              (hexd_plain _ (by omega)) (hexd_plain _ (by omega)) _ _ _ m h

/-- T2 with explicit fuels -/
theorem scan_esc_F (rest : Bytes) : ∀ (n : Nat) (s : Bytes),
    scanF ((escF n s).length + 1) (escF n s ++ quote :: rest) = some (escF n s, rest) := by
  intro n
  induction n with
  | zero => intro s; simp [escF, scanF]
  | succ n ih =>
    intro s
    match s with
    | [] => simp [escF, scanF]
    | b :: r =>
      by_cases hb : b < 128
      · by_cases hs : safe b = true
        · simp only [escF, hb, hs, if_true]
          have hp : plain b := by
            simp only [safe, Bool.and_eq_true, bne_iff_ne, ne_eq] at hs; exact ⟨hs.1.2, hs.2⟩
          have := S_copy [b] _ _ rest _ (by intro x hx; simp at hx; subst hx; exact hp) (ih r)
          simpa using this
        · have hs' : safe b = false := by simpa using hs
          simp only [escF, hb, hs', if_true, Bool.false_eq_true, if_false]
          have := S_escAscii b hb _ _ rest _ (ih r)
          rw [List.length_append, List.append_assoc]
          have e : (escAscii b).length + (escF n r).length + 1 = (escF n r).length + 1 + (escAscii b).length := by omega
          rw [e]; exact this
      · by_cases hk : runeLen (b :: r) = 0
        · simp only [escF, hb, hk, if_false, if_true]
          have := S_u4 102 102 102 100 (by simp [plain, quote, bslash]) (by simp [plain, quote, bslash])
            (by simp [plain, quote, bslash]) (by simp [plain, quote, bslash]) _ _ rest _ (ih r)
          have e : ([bslash, 117, 102, 102, 102, 100] ++ escF n r).length + 1 = (escF n r).length + 1 + 6 := by
            simp only [List.length_append, List.length_cons, List.length_nil]; omega
          rw [e]; exact this
        · obtain ⟨hkl, hk2, hbytes⟩ := runeLen_bytes (b :: r) hk
          cases hls : lineSep (b :: r) with
          | some d =>
            simp only [escF, hb, hk, if_false, hls]
            obtain ⟨t, ht⟩ := lineSep_some _ _ hls
            have hd : plain d := by
              rcases ht with ⟨_, hd⟩ | ⟨_, hd⟩ <;> subst hd <;> simp [plain, quote, bslash]
            have := S_u4 50 48 50 d (by simp [plain, quote, bslash]) (by simp [plain, quote, bslash])
              (by simp [plain, quote, bslash]) hd _ _ rest _ (ih (r.drop 2))
            have e : ([bslash, 117, 50, 48, 50, d] ++ escF n (r.drop 2)).length + 1 = (escF n (r.drop 2)).length + 1 + 6 := by
              simp only [List.length_append, List.length_cons, List.length_nil]; omega
            rw [e]; exact this
          | none =>
            simp only [escF, hb, hk, if_false, hls]
            have hp : ∀ x ∈ (b :: r).take (runeLen (b :: r)), plain x := by
              intro x hx; have := hbytes x hx; simp [plain, quote, bslash]; omega
            have := S_copy _ _ _ rest _ hp (ih ((b :: r).drop (runeLen (b :: r))))
            rw [List.length_append, List.append_assoc]
            have e : ∀ a c : Nat, a + c + 1 = c + 1 + a := by omega
            rw [e]; exact this


end APModel.Text
