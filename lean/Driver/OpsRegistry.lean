import Driver.Util
import APModel.Model.Registry
open Lean APModel.Registry

namespace Driver

/-- expected Go type of the value produced for a type name on a path. A name that occurs nowhere in the
source is handled by the default clauses (id beyond the table). -/
def opTypeOf (j : Json) : R Json := do
  let name ← strF j "name"
  let via ← strF j "via"
  let hooks ← boolF j "hooks"
  let n := (nameId name).getD 1000000
  let t := match via with
    | "registry" => registryType n
    | "jsonTop" | "jsonNested" | "jsonList" | "jsonItemList" => jsonType n hooks
    | "jsonForeignSibling" | "jsonTopForeign" | "jsonAnonTop" | "jsonAnonNested" | "jsonAnonList" => jsonType n hooks
    | "jsonEscapedTop" | "jsonEscapedNested" | "jsonEscapedList" => jsonType n hooks
    | "gobTop" | "gobNested" | "gobList" | "gobItemList" => gobType n
    | v => if v.startsWith "jsonField:" || v.startsWith "jsonCompact:" || v.startsWith "jsonItemListAfterNothing:" then jsonType n hooks else if v.startsWith "gobField:" || v.startsWith "gobRecipient:" then gobType n else "?"
  if t == "mismatch" then return Json.mkObj [("outside", Json.bool true)]   -- registry and switches disagree on the struct: no prediction
  return Json.str t

end Driver
