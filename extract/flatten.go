package main

import (
	"fmt"
	"go/ast"
	"sort"
	"strings"
)

// Flatten*Properties: per function, the rows  x.F = Fn(x.F)  in source order, and delegations
//   _ = OnObject(x, func(o *Object) error { FlattenObjectProperties(o); return nil })   -> delegate "FlattenObjectProperties"
func (x *Extractor) genFlatten() string {
	names := []string{}
	for k := range x.funcs {
		if strings.HasPrefix(k, "Flatten") && strings.HasSuffix(k, "Properties") && k != "FlattenProperties" {
			names = append(names, k)
		}
	}
	sort.Strings(names)
	var sb strings.Builder
	sb.WriteString(header)
	sb.WriteString("namespace APModel.Generated\n\nstructure FlattenRow where\n  fn : String\n  rows : List (String × String)   -- (field, flattening function)\n  delegates : List String\n  other : List String\n  deriving Repr, DecidableEq\n\ndef flattenRows : List FlattenRow := [\n")
	for i, n := range names {
		fd := x.funcs[n]
		var rows, dels, other []string
		for _, st := range fd.Body.List {
			switch s := st.(type) {
			case *ast.IfStmt:
				// if x == nil { return nil }
				if strings.Contains(x.src(s.Cond), "== nil") {
					continue
				}
				other = append(other, "?unknown: "+x.src(s))
			case *ast.ReturnStmt:
				continue
			case *ast.AssignStmt:
				ok := false
				if len(s.Lhs) == 1 && len(s.Rhs) == 1 {
					if l, lok := s.Lhs[0].(*ast.SelectorExpr); lok {
						if c, cok := s.Rhs[0].(*ast.CallExpr); cok && len(c.Args) == 1 {
							if fn, fok := c.Fun.(*ast.Ident); fok {
								if a, aok := c.Args[0].(*ast.SelectorExpr); aok && a.Sel.Name == l.Sel.Name {
									rows = append(rows, fmt.Sprintf("(%s, %s)", lstr(l.Sel.Name), lstr(fn.Name)))
									ok = true
								}
							}
						}
					}
					if id, iok := s.Lhs[0].(*ast.Ident); iok && id.Name == "_" {
						if d := x.flattenDelegate(s.Rhs[0]); d != "" {
							dels = append(dels, d)
							ok = true
						}
					}
				}
				if !ok {
					other = append(other, "?unknown: "+x.src(s))
				}
			case *ast.ExprStmt:
				if d := x.flattenDelegate(s.X); d != "" {
					dels = append(dels, d)
				} else {
					other = append(other, "?unknown: "+x.src(s))
				}
			default:
				other = append(other, "?unknown: "+x.src(st))
			}
		}
		sep := ","
		if i == len(names)-1 {
			sep = ""
		}
		fmt.Fprintf(&sb, "  { fn := %s, rows := [%s], delegates := %s, other := %s }%s\n", lstr(n), strings.Join(rows, ", "), lstrList(dels), lstrList(other), sep)
	}
	sb.WriteString("]\n\nend APModel.Generated\n")
	return sb.String()
}

func (x *Extractor) flattenDelegate(e ast.Expr) string {
	c, ok := e.(*ast.CallExpr)
	if !ok {
		return ""
	}
	id, ok := c.Fun.(*ast.Ident)
	if !ok || !strings.HasPrefix(id.Name, "On") || len(c.Args) != 2 {
		return ""
	}
	fl, ok := c.Args[1].(*ast.FuncLit)
	if !ok || len(fl.Body.List) != 2 {
		return ""
	}
	es, ok := fl.Body.List[0].(*ast.ExprStmt)
	if !ok {
		return ""
	}
	call, ok := es.X.(*ast.CallExpr)
	if !ok {
		return ""
	}
	fn, ok := call.Fun.(*ast.Ident)
	if !ok || !strings.HasPrefix(fn.Name, "Flatten") {
		return ""
	}
	return fn.Name
}

func init() {
	moreGens = append(moreGens, func(x *Extractor) map[string]func() string {
		return map[string]func() string{"Flatten.lean": x.genFlatten}
	})
}
