package main

import (
	"fmt"
	"go/ast"
	"go/token"
	"go/types"
	"sort"
	"strings"
)

// Index discipline (C04): every index expression x[i] and slice expression x[a:b] whose base is a
// slice, string or array, with the facts that dominate it:
//   enclosing if/for conditions (and the left operand of && / the negated left operand of ||),
//   the negation of every earlier `if cond { …return/continue/break/panic }` of the same block,
//   `range k:X` for an enclosing `for k[, v] := range X`.
// Lean holds the expected list (function, expression, facts it needs); a site that is not expected,
// or whose needed fact is gone, breaks the obligation.

type idxSite struct {
	fn, expr string
	facts    []string
}

type idxScanner struct {
	x     *Extractor
	fn    string
	sites []idxSite
}

func (s *idxScanner) indexable(e ast.Expr) bool {
	tv, ok := s.x.info.Types[e]
	if !ok {
		return false
	}
	t := tv.Type.Underlying()
	if p, ok := t.(*types.Pointer); ok {
		t = p.Elem().Underlying()
	}
	switch b := t.(type) {
	case *types.Slice, *types.Array:
		return true
	case *types.Basic:
		return b.Info()&types.IsString != 0
	}
	return false
}

func neg(c string) string { return "!(" + c + ")" }

func (s *idxScanner) expr(e ast.Expr, facts []string) {
	if e == nil {
		return
	}
	switch v := e.(type) {
	case *ast.BinaryExpr:
		if v.Op == token.LAND {
			s.expr(v.X, facts)
			s.expr(v.Y, append(append([]string{}, facts...), s.x.src(v.X)))
			return
		}
		if v.Op == token.LOR {
			s.expr(v.X, facts)
			s.expr(v.Y, append(append([]string{}, facts...), neg(s.x.src(v.X))))
			return
		}
		s.expr(v.X, facts)
		s.expr(v.Y, facts)
	case *ast.IndexExpr:
		if s.indexable(v.X) {
			s.sites = append(s.sites, idxSite{s.fn, s.x.src(v), append([]string{}, facts...)})
		}
		s.expr(v.X, facts)
		s.expr(v.Index, facts)
	case *ast.SliceExpr:
		if s.indexable(v.X) {
			s.sites = append(s.sites, idxSite{s.fn, s.x.src(v), append([]string{}, facts...)})
		}
		s.expr(v.X, facts)
		s.expr(v.Low, facts)
		s.expr(v.High, facts)
		s.expr(v.Max, facts)
	case *ast.FuncLit:
		s.block(v.Body.List, facts)
	case *ast.CallExpr:
		s.expr(v.Fun, facts)
		for _, a := range v.Args {
			s.expr(a, facts)
		}
	case *ast.ParenExpr:
		s.expr(v.X, facts)
	case *ast.UnaryExpr:
		s.expr(v.X, facts)
	case *ast.StarExpr:
		s.expr(v.X, facts)
	case *ast.SelectorExpr:
		s.expr(v.X, facts)
	case *ast.TypeAssertExpr:
		s.expr(v.X, facts)
	case *ast.KeyValueExpr:
		s.expr(v.Key, facts)
		s.expr(v.Value, facts)
	case *ast.CompositeLit:
		for _, el := range v.Elts {
			s.expr(el, facts)
		}
	}
}

func (s *idxScanner) stmt(st ast.Stmt, facts []string) (after []string) {
	after = facts
	switch v := st.(type) {
	case nil:
	case *ast.ExprStmt:
		s.expr(v.X, facts)
	case *ast.AssignStmt:
		for _, e := range v.Rhs {
			s.expr(e, facts)
		}
		for _, e := range v.Lhs {
			s.expr(e, facts)
		}
	case *ast.IncDecStmt:
		s.expr(v.X, facts)
	case *ast.ReturnStmt:
		for _, e := range v.Results {
			s.expr(e, facts)
		}
	case *ast.DeclStmt:
		if gd, ok := v.Decl.(*ast.GenDecl); ok {
			for _, sp := range gd.Specs {
				if vs, ok := sp.(*ast.ValueSpec); ok {
					for _, e := range vs.Values {
						s.expr(e, facts)
					}
				}
			}
		}
	case *ast.BlockStmt:
		s.block(v.List, facts)
	case *ast.IfStmt:
		f := facts
		if v.Init != nil {
			f = s.stmt(v.Init, f)
		}
		s.expr(v.Cond, f)
		c := s.x.src(v.Cond)
		s.block(v.Body.List, append(append([]string{}, f...), c))
		if v.Else != nil {
			s.stmt(v.Else, append(append([]string{}, f...), neg(c)))
		}
		if terminates(v.Body) && v.Else == nil {
			after = append(append([]string{}, facts...), neg(c))
		} else if v.Else == nil && len(v.Body.List) == 1 {
			// `if cond { v = e }`: afterwards either !cond holds or v = e was just assigned
			if as, ok := v.Body.List[0].(*ast.AssignStmt); ok && as.Tok == token.ASSIGN {
				after = append(append([]string{}, facts...), "clamp("+c+" => "+s.x.src(as)+")")
			}
		}
	case *ast.ForStmt:
		f := facts
		if v.Init != nil {
			f = s.stmt(v.Init, f)
		}
		if v.Cond != nil {
			s.expr(v.Cond, f)
			f = append(append([]string{}, f...), "for:"+s.x.src(v.Cond))
		}
		s.block(v.Body.List, f)
		if v.Post != nil {
			s.stmt(v.Post, f)
		}
	case *ast.RangeStmt:
		s.expr(v.X, facts)
		f := facts
		if v.Key != nil {
			f = append(append([]string{}, facts...), "range "+s.x.src(v.Key)+":"+s.x.src(v.X))
		}
		s.block(v.Body.List, f)
	case *ast.SwitchStmt:
		f := facts
		if v.Init != nil {
			f = s.stmt(v.Init, f)
		}
		s.expr(v.Tag, f)
		for _, cc := range v.Body.List {
			cl := cc.(*ast.CaseClause)
			ff := f
			if v.Tag == nil && len(cl.List) == 1 {
				ff = append(append([]string{}, f...), s.x.src(cl.List[0]))
			}
			for _, e := range cl.List {
				s.expr(e, f)
			}
			s.block(cl.Body, ff)
		}
	case *ast.TypeSwitchStmt:
		for _, cc := range v.Body.List {
			s.block(cc.(*ast.CaseClause).Body, facts)
		}
	case *ast.DeferStmt:
		s.expr(v.Call, facts)
	case *ast.GoStmt:
		s.expr(v.Call, facts)
	case *ast.LabeledStmt:
		return s.stmt(v.Stmt, facts)
	}
	return after
}

func (s *idxScanner) block(list []ast.Stmt, facts []string) {
	for _, st := range list {
		facts = s.stmt(st, facts)
	}
}

func (x *Extractor) genIndexSites() string {
	var sb strings.Builder
	sb.WriteString(header)
	sb.WriteString("namespace APModel.Generated\n\n")
	if err := x.typecheck(); err != nil {
		sb.WriteString("def indexSites : List (String × String × List String) := [(\"?unknown\", " + lstr(err.Error()) + ", [])]\n\nend APModel.Generated\n")
		return sb.String()
	}
	var keys []string
	for k := range x.funcs {
		keys = append(keys, k)
	}
	sort.Strings(keys)
	var all []idxSite
	for _, k := range keys {
		fd := x.funcs[k]
		if fd.Body == nil {
			continue
		}
		s := &idxScanner{x: x, fn: k}
		s.block(fd.Body.List, nil)
		all = append(all, s.sites...)
	}
	sb.WriteString("/-- (function, expression, dominating facts) for every index and slice expression on a slice, string or array -/\ndef indexSites : List (String × String × List String) := [\n")
	for i, st := range all {
		sep := ","
		if i == len(all)-1 {
			sep = ""
		}
		fmt.Fprintf(&sb, "  (%s, %s, %s)%s\n", lstr(st.fn), lstr(st.expr), lstrList(st.facts), sep)
	}
	sb.WriteString("]\n\nend APModel.Generated\n")
	return sb.String()
}

func init() {
	moreGens = append(moreGens, func(x *Extractor) map[string]func() string {
		return map[string]func() string{"IndexSites.lean": x.genIndexSites}
	})
}
