#!/usr/bin/env python3
"""regress_seeds.py Cxx [Cyy ...]: re-run the quick check of each named property on /repo with each stored seed of that
property applied (seeded/<Cxx>-*/patch.diff), one after the other; prints which are (still) caught.  /repo must be clean; it is
restored after every seed, and the evidence files of the unchanged tree are put back."""
import glob, json, os, subprocess, sys
env = dict(os.environ, GOFLAGS='-mod=mod', GOPROXY='off', GOSUMDB='off', GOTOOLCHAIN='local')
def sh(cmd):
    p = subprocess.run(cmd, shell=True, env=env, stdout=subprocess.PIPE, stderr=subprocess.STDOUT, text=True)
    return p.returncode, p.stdout
rc, out = sh('git -C /repo status --porcelain --untracked-files=no')
if out.strip():
    print('/repo is dirty'); sys.exit(2)
for prop in sys.argv[1:]:
    ep = '/verif/evidence/%s.json' % prop
    saved = open(ep).read() if os.path.exists(ep) else None
    for d in sorted(glob.glob('/verif/seeded/%s-*' % prop)):
        patch = os.path.join(d, 'patch.diff')
        rc, out = sh('git -C /repo apply --check %s' % patch)
        if rc != 0:
            print(os.path.basename(d), 'SKIP (does not apply to the current tree)', flush=True)
            continue
        sh('git -C /repo apply %s' % patch)
        try:
            rc, out = sh('/verif/bin/check %s --tier quick' % prop)
        finally:
            sh('git -C /repo checkout -- .')
        line = [l for l in out.splitlines() if l.startswith('VIOLATION')]
        print(os.path.basename(d), 'caught' if rc == 1 and line else 'MISSED', (line[0][-40:] if line else ''), flush=True)
    if saved is not None:
        open(ep, 'w').write(saved)
