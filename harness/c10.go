package main

import (
	"encoding/json"
	"fmt"
	"net/url"
	"reflect"
	"sort"
	"strings"

	ap "github.com/go-ap/activitypub"
)

// C10 — Recipients(): de-duplication without losing or inventing addressees.

type aEntry struct {
	K  string `json:"k"` // iri | obj | link | other ; a nil entry is JSON null
	ID string `json:"id"`
}

func (e *aEntry) item() ap.Item {
	if e == nil {
		return nil
	}
	switch e.K {
	case "iri":
		return ap.IRI(e.ID)
	case "obj":
		return &ap.Actor{ID: ap.ID(e.ID), Type: ap.PersonType}
	case "obj2":
		// another embedded copy of the same addressee: another type, more properties
		return &ap.Object{ID: ap.ID(e.ID), Type: ap.ProfileType, Name: ap.DefaultNaturalLanguageValue("a copy")}
	case "link":
		return &ap.Link{ID: ap.ID(e.ID), Type: ap.LinkType, Href: ap.IRI(e.ID)}
	case "other":
		return ap.ItemCollection{}
	}
	panic("entry kind")
}

// keyed: the entry names an addressee (it has an id or link); an embedded object without an id does not
func (e *aEntry) keyed() bool { return e != nil && e.K != "other" && e.ID != "" }

type aValue struct {
	Type     string    `json:"type"`
	Block    bool      `json:"block"`
	Object   *aEntry   `json:"object"`
	Actor    *aEntry   `json:"actor"`
	To       []*aEntry `json:"to"`
	CC       []*aEntry `json:"cc"`
	Bto      []*aEntry `json:"bto"`
	BCC      []*aEntry `json:"bcc"`
	Audience []*aEntry `json:"audience"`
	Members  []aValue  `json:"members,omitempty"`
}

func mkCol(l []*aEntry) ap.ItemCollection {
	if l == nil {
		return nil
	}
	c := make(ap.ItemCollection, 0, len(l))
	for _, e := range l {
		c = append(c, e.item())
	}
	return c
}

func (v aValue) build() ap.Item {
	rt := goTypes[v.Type]
	pv := reflect.New(rt)
	sv := pv.Elem()
	set := func(name string, l []*aEntry) {
		if l != nil {
			sv.FieldByName(name).Set(reflect.ValueOf(mkCol(l)))
		}
	}
	set("To", v.To)
	set("CC", v.CC)
	set("Bto", v.Bto)
	set("BCC", v.BCC)
	set("Audience", v.Audience)
	sv.FieldByName("ID").SetString("https://example.com/the-value")
	if f := sv.FieldByName("Actor"); f.IsValid() && v.Actor != nil {
		f.Set(reflect.ValueOf(v.Actor.item()))
	}
	if v.Type == "Activity" {
		if v.Block {
			sv.FieldByName("Type").SetString("Block")
		} else {
			sv.FieldByName("Type").SetString("Create")
		}
		if v.Object != nil {
			sv.FieldByName("Object").Set(reflect.ValueOf(v.Object.item()))
		}
	}
	return pv.Interface().(ap.Item)
}

func describeEntry(it ap.Item) interface{} {
	if it == nil {
		return nil
	}
	switch x := it.(type) {
	case ap.IRI:
		return []string{"iri", string(x)}
	case *ap.Actor:
		return []string{"obj", string(x.ID)}
	case *ap.Link:
		return []string{"link", string(x.ID)}
	case *ap.Object:
		return []string{"obj2", string(x.ID)}
	case ap.ItemCollection:
		return []string{"other", ""}
	}
	return []string{fmt.Sprintf("%T", it), string(it.GetLink())}
}

func describeCol(c ap.ItemCollection) []interface{} {
	out := make([]interface{}, 0, len(c))
	for _, it := range c {
		out = append(out, describeEntry(it))
	}
	return out
}

func colsAfter(it ap.Item) map[string]interface{} {
	sv := reflect.ValueOf(it).Elem()
	get := func(n string) []interface{} { return describeCol(sv.FieldByName(n).Interface().(ap.ItemCollection)) }
	return map[string]interface{}{"to": get("To"), "cc": get("CC"), "bto": get("Bto"), "bcc": get("BCC")}
}

// iriEq: the oracle's own reading of "the same addressee" (C14's key, computed with net/url and the harness'
// path cleaner, not with the library's Equals): host with port, cleaned path and sorted query pairs, ignoring
// scheme, letter case of host and path, trailing slash, dot segments and fragment; strings that are no
// absolute URLs are the same when they are equal ignoring ASCII case.
func iriEq(a, b string) bool {
	ka, oka := refIRIKey(a)
	kb, okb := refIRIKey(b)
	if oka && okb {
		// letter case is ignored in host and path for letters of any script (strings.EqualFold), not in the query
		pa, pb := strings.SplitN(ka, "|", 3), strings.SplitN(kb, "|", 3)
		return strings.EqualFold(pa[0], pb[0]) && strings.EqualFold(pa[1], pb[1]) && pa[2] == pb[2]
	}
	return strings.EqualFold(a, b)
}

func refIRIKey(s string) (string, bool) {
	if i := strings.IndexByte(s, '#'); i > 0 {
		s = s[:i]
	}
	u, err := url.Parse(s)
	if err != nil || u.Scheme == "" || u.Host == "" {
		return "", false
	}
	var pairs []string
	if u.RawQuery != "" {
		pairs = strings.Split(u.RawQuery, "&")
		sort.Strings(pairs)
	}
	return u.Host + "|" + refClean(u.Path) + "|" + strings.Join(pairs, "&"), true
}

// scanOrder: the addressing entries in the order the property prescribes.
func (v aValue) scanOrder() [][]*aEntry {
	cols := [][]*aEntry{v.To, v.CC, v.Bto, v.BCC}
	if v.Type == "IntransitiveActivity" || v.Type == "Question" {
		cols = append(cols, []*aEntry{v.Actor})
	}
	return append(cols, v.Audience)
}

// judge states C10 on the implementation's outcome.
func (v aValue) judge(rec []string, after map[string]interface{}) string {
	blocked := ""
	if v.Type == "Activity" && v.Block && v.Object != nil {
		blocked = v.Object.ID
		if v.Object.K == "other" {
			blocked = ""
		}
	}
	isBlocked := func(e *aEntry) bool {
		if blocked == "" || e == nil {
			return false
		}
		id := e.ID
		if e.K == "other" {
			id = ""
		}
		return iriEq(id, blocked)
	}
	// expected recipients: first mentions in scan order, blocked object removed first
	var want []string
	for _, col := range v.scanOrder() {
		for _, e := range col {
			if !e.keyed() || isBlocked(e) {
				continue
			}
			dup := false
			for _, w := range want {
				if iriEq(e.ID, w) {
					dup = true
				}
			}
			if !dup {
				want = append(want, e.ID)
			}
		}
	}
	if len(rec) != len(want) {
		return fmt.Sprintf("recipients %q, expected the first mentions %q", rec, want)
	}
	for i := range rec {
		if rec[i] != want[i] {
			return fmt.Sprintf("recipients %q, expected the first mentions %q", rec, want)
		}
	}
	for i := range rec {
		for j := i + 1; j < len(rec); j++ {
			if iriEq(rec[i], rec[j]) {
				return fmt.Sprintf("recipients name %q and %q, which are equivalent", rec[i], rec[j])
			}
		}
	}
	// the value's own lists: first mention kept, order kept, nil entries kept, no duplicates across the four
	var seen []string
	names := []string{"to", "cc", "bto", "bcc"}
	orig := [][]*aEntry{v.To, v.CC, v.Bto, v.BCC}
	for ci, name := range names {
		var exp []interface{}
		for _, e := range orig[ci] {
			if e == nil {
				exp = append(exp, nil)
				continue
			}
			if isBlocked(e) {
				continue
			}
			if !e.keyed() {
				exp = append(exp, []string{e.K, ""})
				continue
			}
			dup := false
			for _, s := range seen {
				if iriEq(e.ID, s) {
					dup = true
				}
			}
			if dup {
				continue
			}
			seen = append(seen, e.ID)
			exp = append(exp, []string{e.K, e.ID})
		}
		got := after[name].([]interface{})
		if !reflect.DeepEqual(normTree(got), normTree(exp)) && !(len(got) == 0 && len(exp) == 0) {
			return fmt.Sprintf("%s after Recipients() = %v, expected (first mentions, order kept, nils kept) %v", name, mustJSONs(got), mustJSONs(exp))
		}
	}
	return ""
}

func mustJSONs(v interface{}) string { return string(mustJSON(v)) }

func runRecipients(v aValue) (res interface{}, viol string) {
	if v.Type == "ItemCollection" {
		col := make(ap.ItemCollection, 0)
		var built []ap.Item
		for _, m := range v.Members {
			it := m.build()
			built = append(built, it)
			col = append(col, it)
		}
		var rec ap.ItemCollection
		if p, msg := guard(func() { rec = col.Recipients() }); p {
			return "panic", "panic: " + msg
		}
		var ids []string
		for _, r := range rec {
			ids = append(ids, string(r.GetLink()))
		}
		ms := []interface{}{}
		for _, b := range built {
			ms = append(ms, colsAfter(b))
		}
		// oracle: the union of the members' addressees, each class once, in order of first mention
		var want []string
		for _, m := range v.Members {
			for _, colm := range m.scanOrder() {
				for _, e := range colm {
					if !e.keyed() {
						continue
					}
					dup := false
					for _, w := range want {
						if iriEq(e.ID, w) {
							dup = true
						}
					}
					if !dup {
						want = append(want, e.ID)
					}
				}
			}
		}
		if fmt.Sprint(ids) != fmt.Sprint(want) {
			viol = fmt.Sprintf("recipients %q, expected the first mentions %q", ids, want)
		}
		if ids == nil {
			ids = []string{}
		}
		return map[string]interface{}{"rec": ids, "members": ms}, viol
	}
	it := v.build()
	hr, ok := it.(ap.HasRecipients)
	if !ok {
		return "no-recipients-method", v.Type + " does not implement HasRecipients"
	}
	var rec ap.ItemCollection
	if p, msg := guard(func() { rec = hr.Recipients() }); p {
		return "panic", "panic: " + msg
	}
	ids := []string{}
	for _, r := range rec {
		ids = append(ids, string(r.GetLink()))
	}
	after := colsAfter(it)
	out := map[string]interface{}{"rec": ids}
	for k, x := range after {
		out[k] = x
	}
	viol = v.judge(ids, after)
	if viol == "" && v.Type == "Activity" && v.Block && v.Object != nil && v.Object.keyed() {
		sv := reflect.ValueOf(it).Elem()
		for _, n := range []string{"To", "CC", "Bto", "BCC", "Audience"} {
			for _, e := range sv.FieldByName(n).Interface().(ap.ItemCollection) {
				if e != nil && iriEq(string(e.GetID()), v.Object.ID) {
					viol = fmt.Sprintf("the blocked object %q is still addressed in %s", v.Object.ID, n)
				}
			}
		}
	}
	return out, viol
}

var c10Pool = []*aEntry{
	{"iri", "https://example.com/a"}, {"iri", "http://example.com/a"}, {"iri", "https://EXAMPLE.com/a/"}, {"obj", "https://example.com/a"},
	{"iri", "https://example.com/b"}, {"obj", "https://example.com/b"}, {"iri", "https://www.w3.org/ns/activitystreams#Public"},
	{"iri", "https://example.com/c"}, {"link", "https://example.com/l"}, nil, {"other", ""},
	{"obj2", "https://example.com/a"}, {"obj", "http://example.com/a"}, {"obj2", "http://EXAMPLE.com/b/"},
	{"obj", ""}, // an embedded actor without an id: names nobody, is left alone (also when a list holds two of them)
}

func c10Case(c *Ctx, v aValue) {
	res, viol := runRecipients(v)
	b := mustJSON(v)
	var in map[string]interface{}
	json.Unmarshal(b, &in)
	in["op"] = "recipients"
	n := len(v.To) + len(v.CC) + len(v.Bto) + len(v.BCC) + len(v.Audience) + len(v.Members)
	c.Emit(in, res, n > 0)
	c.Tag("type/" + v.Type)
	if v.Block {
		c.Tag("block")
	}
	if viol != "" {
		cls := "C10/recipients"
		if len(viol) > 6 && viol[:6] == "panic:" {
			cls = "C10/panic"
		}
		c.Fail(cls, viol, in)
	}
}

// c10OracleCase: ids outside the model's URL grammar (letters beyond ASCII): judged by the oracle only
func c10OracleCase(c *Ctx, v aValue) {
	_, viol := runRecipients(v)
	b := mustJSON(v)
	var in map[string]interface{}
	json.Unmarshal(b, &in)
	in["op"] = "recipients"
	c.Count(in, true)
	c.Tag("non-ascii-ids")
	if viol != "" {
		c.Fail("C10/recipients", viol, in)
	}
}

func c10RandCol(r *RNG, maxLen int) []*aEntry {
	if r.Chance(15) {
		return nil
	}
	l := []*aEntry{}
	for k := r.Intn(maxLen + 1); k > 0; k-- {
		l = append(l, c10Pool[r.Intn(len(c10Pool))])
	}
	return l
}

func c10RandValue(r *RNG, typ string, maxLen int) aValue {
	v := aValue{Type: typ, To: c10RandCol(r, maxLen), CC: c10RandCol(r, maxLen), Bto: c10RandCol(r, maxLen), BCC: c10RandCol(r, maxLen), Audience: c10RandCol(r, maxLen)}
	if typ == "IntransitiveActivity" || typ == "Question" {
		if r.Chance(80) {
			v.Actor = c10Pool[r.Intn(9)]
		}
	}
	if typ == "Activity" {
		v.Block = r.Chance(60)
		if r.Chance(85) {
			v.Object = c10Pool[r.Intn(9)]
		}
	}
	return v
}

func init() {
	campaigns["C10"] = func(c *Ctx) {
		c.Rule = "bounded-exhaustive: every assignment of at most one entry from a 7-entry pool (three presentations of one id: scheme, case+trailing slash, embedded actor; a second id; the public collection; nil) to to/cc/bto/bcc/audience of an Object (7^5 values); random lists up to length 4 (thorough 6) from an 11-entry pool (adds a link, a non-addressable item, more ids) for each of the 13 struct types with Recipients() incl. actor for IntransitiveActivity/Question and Block activities with a blocked object, and item lists of 1-3 such objects. Non-trivial = at least one entry."
		small := []*aEntry{c10Pool[0], c10Pool[1], c10Pool[2], c10Pool[3], c10Pool[4], c10Pool[6], nil}
		opt := func(i int) []*aEntry {
			if i == 0 {
				return []*aEntry{}
			}
			return []*aEntry{small[i-1]}
		}
		// 8 options per property would be 32768; one option (the nil entry) shares index with "empty" for audience to keep 7^5
		for a := 0; a < 7; a++ {
			for b := 0; b < 7; b++ {
				for d := 0; d < 7; d++ {
					for e := 0; e < 7; e++ {
						for f := 0; f < 7; f++ {
							c10Case(c, aValue{Type: "Object", To: opt(a), CC: opt(b), Bto: opt(d), BCC: opt(e), Audience: opt(f)})
						}
					}
				}
			}
		}
		types := append([]string{}, objectGoTypes...)
		for i := 0; i < c.N(12000, 300000); i++ {
			typ := types[c.R.Intn(len(types))]
			if c.R.Chance(25) {
				typ = []string{"Activity", "IntransitiveActivity", "Question"}[c.R.Intn(3)]
			}
			c10Case(c, c10RandValue(c.R, typ, c.N(4, 6)))
			// lists longer than a machine word has bits, with a duplicate of an early mention far into the list
			if typ != "ItemCollection" && c.R.Chance(8) {
				var long []*aEntry
				for k := 0; k < 64+c.R.Intn(12); k++ {
					long = append(long, &aEntry{"iri", fmt.Sprintf("https://example.com/follower/%d", k)})
				}
				long = append(long, &aEntry{"iri", "http://example.com/follower/3"}, &aEntry{"obj", "https://example.com/b"}, &aEntry{"iri", "https://EXAMPLE.com/b/"})
				c10Case(c, aValue{Type: typ, To: []*aEntry{{"obj", "https://example.com/b"}}, CC: long, Bto: []*aEntry{}, BCC: []*aEntry{}, Audience: []*aEntry{}})
			}
			// one addressee spelled with letters of another script, in two letter cases and with a trailing slash
			if typ != "ItemCollection" {
				greek := []*aEntry{{"iri", "https://example.gr/users/Νίκος"}, {"iri", "http://EXAMPLE.GR/USERS/ΝΊΚΟΣ/"}, {"obj", "https://example.gr/users/νίκος"},
					{"iri", "https://example.com/straße"}, {"iri", "https://example.com/STRAßE/"}, {"iri", "https://example.com/b"}}
				pick := func() []*aEntry {
					var l []*aEntry
					for k := c.R.Intn(4); k > 0; k-- {
						l = append(l, greek[c.R.Intn(len(greek))])
					}
					return l
				}
				c10OracleCase(c, aValue{Type: typ, To: pick(), CC: pick(), Bto: pick(), BCC: pick(), Audience: pick()})
			}
		}
		for i := 0; i < c.N(1500, 30000); i++ {
			v := aValue{Type: "ItemCollection"}
			for k := 1 + c.R.Intn(3); k > 0; k-- {
				v.Members = append(v.Members, c10RandValue(c.R, "Object", 3))
			}
			c10Case(c, v)
		}
		c.Exhaust = true
	}
	replayers["C10"] = func(class string, input []byte) string {
		var v aValue
		if err := json.Unmarshal(input, &v); err != nil {
			return "bad replay input: " + err.Error()
		}
		_, viol := runRecipients(v)
		return viol
	}
}
