package main

import (
	"fmt"
	"go/ast"
	"go/constant"
	"go/token"
	"sort"
	"strings"
)

// The tables and literal choices of the JSON string writer `stringBytes` (natural_language_values.go), which the
// byte-level text model (Model/Text.lean: `safe`, `hexd`, `escAscii`, `escF`) transcribes by hand:
//
//   safeSetTable, htmlSafeTable   the two [utf8.RuneSelf]bool tables, as 128 booleans
//   hexDigits                     the digit string, as bytes
//   escSwitch                     the cases of `switch b` in stringBytes: the byte values of a clause and what the
//                                 clause writes ("self", one letter, or "u00hex")
//   escStrings                    the string literals stringBytes writes, in source order
//   escSafeCond                   the test that lets an ASCII byte through unescaped
//   escSepCond                    the test that sends a decoded rune to the `\u202x` branch
//   stringBytesCalls              every call of stringBytes: (caller, the escapeHTML argument)

func (x *Extractor) boolTable(name string) ([]bool, string) {
	for _, f := range x.files {
		for _, d := range f.Decls {
			gd, ok := d.(*ast.GenDecl)
			if !ok || gd.Tok != token.VAR {
				continue
			}
			for _, sp := range gd.Specs {
				vs := sp.(*ast.ValueSpec)
				for i, id := range vs.Names {
					if id.Name != name || i >= len(vs.Values) {
						continue
					}
					cl, ok := vs.Values[i].(*ast.CompositeLit)
					if !ok {
						return nil, "not a composite literal"
					}
					tbl := make([]bool, 128)
					next := int64(0)
					for _, el := range cl.Elts {
						val := el
						if kv, ok := el.(*ast.KeyValueExpr); ok {
							tv, ok := x.info.Types[kv.Key]
							if !ok || tv.Value == nil {
								return nil, "key is not a constant: " + x.src(kv.Key)
							}
							k, ok := constant.Int64Val(constant.ToInt(tv.Value))
							if !ok {
								return nil, "key is not an integer: " + x.src(kv.Key)
							}
							next = k
							val = kv.Value
						}
						tv, ok := x.info.Types[val]
						if !ok || tv.Value == nil || tv.Value.Kind() != constant.Bool {
							return nil, "value is not a constant boolean: " + x.src(val)
						}
						if next < 0 || next >= 128 {
							return nil, fmt.Sprintf("index %d outside the table", next)
						}
						tbl[next] = constant.BoolVal(tv.Value)
						next++
					}
					return tbl, ""
				}
			}
		}
	}
	return nil, "no such variable"
}

func (x *Extractor) stringVar(name string) (string, string) {
	for _, f := range x.files {
		for _, d := range f.Decls {
			gd, ok := d.(*ast.GenDecl)
			if !ok || (gd.Tok != token.VAR && gd.Tok != token.CONST) {
				continue
			}
			for _, sp := range gd.Specs {
				vs := sp.(*ast.ValueSpec)
				for i, id := range vs.Names {
					if id.Name != name || i >= len(vs.Values) {
						continue
					}
					tv, ok := x.info.Types[vs.Values[i]]
					if !ok || tv.Value == nil || tv.Value.Kind() != constant.String {
						return "", "not a constant string"
					}
					return constant.StringVal(tv.Value), ""
				}
			}
		}
	}
	return "", "no such variable"
}

func leanBools(t []bool) string {
	q := make([]string, len(t))
	for i, b := range t {
		q[i] = fmt.Sprint(b)
	}
	return "[" + strings.Join(q, ", ") + "]"
}

func leanNats(t []int64) string {
	q := make([]string, len(t))
	for i, b := range t {
		q[i] = fmt.Sprint(b)
	}
	return "[" + strings.Join(q, ", ") + "]"
}

func (x *Extractor) genEscTables() string {
	if err := x.typecheck(); err != nil {
		return header + "-- typecheck failed: " + err.Error() + "\n#check (APModel.Generated.typecheckFailed : Nat)\n"
	}
	var b strings.Builder
	b.WriteString(header)
	b.WriteString("namespace APModel.Generated\n\n")
	var problems []string
	for _, t := range []struct{ goName, leanName string }{{"safeSet", "safeSetTable"}, {"htmlSafeSet", "htmlSafeTable"}} {
		tbl, why := x.boolTable(t.goName)
		if why != "" {
			problems = append(problems, t.goName+": "+why)
			tbl = nil
		}
		fmt.Fprintf(&b, "def %s : List Bool := %s\n\n", t.leanName, leanBools(tbl))
	}
	hexs, why := x.stringVar("hex")
	if why != "" {
		problems = append(problems, "hex: "+why)
	}
	var hb []int64
	for _, c := range []byte(hexs) {
		hb = append(hb, int64(c))
	}
	fmt.Fprintf(&b, "def hexDigits : List Nat := %s\n\n", leanNats(hb))

	// the writer itself
	var cases, strs []string
	safeCond, sepCond := "", ""
	if fd := x.funcs["stringBytes"]; fd == nil || fd.Body == nil {
		problems = append(problems, "stringBytes: no such function")
	} else {
		constOf := func(e ast.Expr) (int64, bool) {
			tv, ok := x.info.Types[e]
			if !ok || tv.Value == nil {
				return 0, false
			}
			return constant.Int64Val(constant.ToInt(tv.Value))
		}
		// what a clause body writes
		writes := func(body []ast.Stmt) string {
			var out []string
			for _, st := range body {
				es, ok := st.(*ast.ExprStmt)
				if !ok {
					out = append(out, "?"+x.src(st))
					continue
				}
				call, ok := es.X.(*ast.CallExpr)
				if !ok || len(call.Args) != 1 {
					out = append(out, "?"+x.src(st))
					continue
				}
				sel, _ := call.Fun.(*ast.SelectorExpr)
				if sel == nil {
					out = append(out, "?"+x.src(st))
					continue
				}
				arg := x.src(call.Args[0])
				switch {
				case (sel.Sel.Name == "WriteRune" && arg == "rune(b)") || (sel.Sel.Name == "WriteByte" && arg == "b"):
					out = append(out, "self")
				case arg == "hex[b>>4]":
					out = append(out, "hi")
				case arg == "hex[b&0xF]":
					out = append(out, "lo")
				default:
					if v, ok := constOf(call.Args[0]); ok && (sel.Sel.Name == "WriteRune" || sel.Sel.Name == "WriteByte") {
						out = append(out, fmt.Sprintf("byte %d", v))
					} else if tv, ok := x.info.Types[call.Args[0]]; ok && tv.Value != nil && tv.Value.Kind() == constant.String && sel.Sel.Name == "WriteString" {
						out = append(out, "str "+constant.StringVal(tv.Value))
					} else {
						out = append(out, "?"+x.src(st))
					}
				}
			}
			return strings.Join(out, ";")
		}
		nSwitch := 0
		ast.Inspect(fd.Body, func(n ast.Node) bool {
			switch s := n.(type) {
			case *ast.SwitchStmt:
				if s.Tag == nil || x.src(s.Tag) != "b" {
					cases = append(cases, fmt.Sprintf("  ([], %s)", lstr("?switch on "+x.src(s))))
					return true
				}
				nSwitch++
				for _, c := range s.Body.List {
					cc := c.(*ast.CaseClause)
					var vals []int64
					bad := ""
					for _, e := range cc.List {
						v, ok := constOf(e)
						if !ok {
							bad = "?case " + x.src(e)
						}
						vals = append(vals, v)
					}
					sort.Slice(vals, func(i, j int) bool { return vals[i] < vals[j] })
					w := writes(cc.Body)
					if bad != "" {
						w = bad
					}
					if cc.List == nil {
						cases = append(cases, fmt.Sprintf("  ([], %s)", lstr("default:"+w)))
					} else {
						cases = append(cases, fmt.Sprintf("  (%s, %s)", leanNats(vals), lstr(w)))
					}
				}
			case *ast.IfStmt:
				c := x.src(s.Cond)
				if strings.Contains(c, "safeSet[") {
					safeCond += c + ";"
				}
				if strings.Contains(c, "2028") {
					sepCond += c + ";"
				}
			case *ast.CallExpr:
				if sel, ok := s.Fun.(*ast.SelectorExpr); ok && sel.Sel.Name == "WriteString" && len(s.Args) == 1 {
					if tv, ok := x.info.Types[s.Args[0]]; ok && tv.Value != nil && tv.Value.Kind() == constant.String {
						strs = append(strs, constant.StringVal(tv.Value))
					} else {
						strs = append(strs, "?"+x.src(s.Args[0]))
					}
				}
			}
			return true
		})
		if nSwitch != 1 {
			problems = append(problems, fmt.Sprintf("stringBytes: %d switches on b", nSwitch))
		}
	}
	fmt.Fprintf(&b, "def escSwitch : List (List Nat × String) := [\n%s\n]\n\n", strings.Join(cases, ",\n"))
	fmt.Fprintf(&b, "def escStrings : List String := %s\n\n", lstrList(strs))
	fmt.Fprintf(&b, "def escSafeCond : String := %s\n\n", lstr(safeCond))
	fmt.Fprintf(&b, "def escSepCond : String := %s\n\n", lstr(sepCond))

	// the callers
	var keys []string
	for k := range x.funcs {
		keys = append(keys, k)
	}
	sort.Strings(keys)
	var calls []string
	for _, k := range keys {
		fd := x.funcs[k]
		if fd.Body == nil {
			continue
		}
		ast.Inspect(fd.Body, func(n ast.Node) bool {
			call, ok := n.(*ast.CallExpr)
			if !ok {
				return true
			}
			if id, ok := call.Fun.(*ast.Ident); ok && id.Name == "stringBytes" && len(call.Args) == 3 {
				arg := "?" + x.src(call.Args[2])
				if tv, ok := x.info.Types[call.Args[2]]; ok && tv.Value != nil && tv.Value.Kind() == constant.Bool {
					arg = fmt.Sprint(constant.BoolVal(tv.Value))
				}
				calls = append(calls, fmt.Sprintf("  (%s, %s)", lstr(k), lstr(arg)))
			}
			return true
		})
	}
	fmt.Fprintf(&b, "def stringBytesCalls : List (String × String) := [\n%s\n]\n\n", strings.Join(calls, ",\n"))
	fmt.Fprintf(&b, "def escProblems : List String := %s\n\n", lstrList(problems))
	b.WriteString("end APModel.Generated\n")
	return b.String()
}

func init() {
	moreGens = append(moreGens, func(x *Extractor) map[string]func() string {
		return map[string]func() string{"EscTables.lean": x.genEscTables}
	})
}
