/-
C09 — Item equality is reflexive, nil-correct and identity-sensitive.
Model: `Model/Equal.lean` (fuel-indexed transcription of ItemsEqual and the Equals methods, comparison
rows regenerated from the source into `Generated/Equals.lean`; tied to the code by the `itemsEqual`
correspondence op).

The model answers `some b` or `none` ("outside the model": two objects of different Go structs, which go
through the typed views of C08, or not enough fuel). All theorems are of the form "the model never gives
the wrong answer", for EVERY pair of value trees and EVERY amount of fuel; together with the
correspondence (which compares every `some b` with the implementation) this is partial correctness of
the property on the modelled domain.
-/
import APModel.Model.Equal
import APModel.Props.C14

namespace APModel.Equal
open APModel APModel.Generated

/-! ### helper lemmas -/

theorem andO_ne_false (a : Option Bool) (b : Unit → Option Bool)
    (ha : a ≠ some false) (hb : b () ≠ some false) : andO a b ≠ some false := by
  unfold andO
  cases a with
  | none => simp
  | some x => cases x <;> simp_all

theorem allO_ne_false {α : Type} (f : α → Option Bool) (l : List α)
    (h : ∀ x ∈ l, f x ≠ some false) : allO f l ≠ some false := by
  induction l with
  | nil => simp [allO]
  | cons a r ih =>
    simp only [allO]
    exact andO_ne_false _ _ (h a List.mem_cons_self) (ih (fun x hx => h x (List.mem_cons_of_mem _ hx)))

theorem anyO_ne_false {α : Type} (f : α → Option Bool) (l : List α) (x : α) (hx : x ∈ l)
    (h : f x ≠ some false) : anyO f l ≠ some false := by
  induction l with
  | nil => simp at hx
  | cons a r ih =>
    simp only [anyO]
    rcases List.mem_cons.mp hx with rfl | hx'
    · cases hf : f x with
      | none => simp
      | some b => cases b <;> simp_all
    · cases hf : f a with
      | none => simp
      | some b =>
        cases b
        · simpa using ih hx'
        · simp

theorem andO_first_false (b : Unit → Option Bool) : andO (some false) b = some false := rfl

theorem andO_ne_true_of_first (a : Option Bool) (b : Unit → Option Bool) (ha : a ≠ some true) :
    andO a b ≠ some true := by
  unfold andO
  cases a with
  | none => simp
  | some x => cases x <;> simp_all

theorem nlvEquals_refl (n : List (Str × Str)) : nlvEquals n n = true := by
  simp only [nlvEquals, beq_self_eq_true, Bool.true_and, List.all_eq_true, List.any_eq_true]
  intro e he; exact ⟨e, he, by simp⟩

theorem optBeq_refl (v : Option FVal) : Copy.optBeq v v = true := by
  cases v <;> simp [Copy.optBeq, FVal.beq_refl]

theorem iriEqv_refl (s : Str) : iriEqv s s = true := IRI.C14_refl _ _ _
theorem iriEqvCS_refl (s : Str) : iriEqvCS s s = true := IRI.C14_refl _ _ _
theorem iriEqvCS_symm (a b : Str) : iriEqvCS a b = iriEqvCS b a := IRI.C14_symm_concrete a b true

/-- comparators the model knows (an unknown one is answered `false`, which no theorem below accepts) -/
def knownRow (row : String × String × String) : Bool :=
  ["items", "equalsW", "equalsO", "time", "value", "iri"].contains row.2.2 ||
  (row.2.2 == "link" && row.2.1 == "notNilLike")

def KnownRows (T : List EqualsRow) : Prop := ∀ r ∈ T, ∀ row ∈ r.rows, knownRow row = true

theorem knownRows_rowsOf (T : List EqualsRow) (h : KnownRows T) (recv : String) :
    ∀ row ∈ rowsOf T recv, knownRow row = true := by
  intro row hrow
  unfold rowsOf at hrow
  cases hf : T.find? (fun r => r.recv == recv) with
  | none => simp [hf] at hrow
  | some r =>
    simp [hf] at hrow
    exact h r (List.mem_of_find?_eq_some hf) row hrow

theorem listEquals_self (rec : Rec) (hrec : ∀ y, rec y y ≠ some false) (w : Item) (hn : w.isNilLike = false)
    (hc : isColl w = true) : listEquals rec (membersOf w) w ≠ some false := by
  simp only [listEquals, hn, hc, Bool.false_eq_true, if_false, Bool.not_true, bne_self_eq_false]
  exact allO_ne_false _ _ (fun it hit => anyO_ne_false _ _ it hit (hrec it))

theorem knownRow_cases (f g c : String) (hk : knownRow (f, g, c) = true) :
    c = "items" ∨ c = "equalsW" ∨ c = "equalsO" ∨ c = "time" ∨ c = "value" ∨
    c = "iri" ∨ (c = "link" ∧ g = "notNilLike") := by
  simp only [knownRow, List.contains_cons, List.contains_nil, Bool.or_false, Bool.or_eq_true, beq_iff_eq,
    Bool.and_eq_true] at hk
  rcases hk with (h | h | h | h | h | h) | h
  · exact Or.inl h
  · exact Or.inr (Or.inl h)
  · exact Or.inr (Or.inr (Or.inl h))
  · exact Or.inr (Or.inr (Or.inr (Or.inl h)))
  · exact Or.inr (Or.inr (Or.inr (Or.inr (Or.inl h))))
  · exact Or.inr (Or.inr (Or.inr (Or.inr (Or.inr (Or.inl h)))))
  · exact Or.inr (Or.inr (Or.inr (Or.inr (Or.inr (Or.inr h)))))

theorem rowHolds_self (rec : Rec) (hrec : ∀ y, rec y y ≠ some false) (o : Fields)
    (row : String × String × String) (hk : knownRow row = true) : rowHolds rec o o row ≠ some false := by
  obtain ⟨f, g, c⟩ := row
  have hc := knownRow_cases f g c hk
  simp only [rowHolds]
  split
  · simp
  · rename_i hg
    rcases hc with rfl | rfl | rfl | rfl | rfl | rfl | ⟨rfl, rfl⟩
    · exact hrec _
    · -- equalsW
      cases hv : o.get? f with
      | none => simp [optBeq_refl]
      | some v =>
        cases v <;> simp [optBeq_refl, nlvOf, nlvEquals_refl]
        rename_i l
        have := listEquals_self rec hrec (.coll false l) (by simp [Item.isNilLike]) (by simp [isColl])
        simpa [membersOf, itemOfField] using this
    · -- equalsO
      cases hv : o.get? f with
      | none => simp [optBeq_refl]
      | some v =>
        cases v <;> simp [optBeq_refl, nlvOf, nlvEquals_refl]
        rename_i l
        have := listEquals_self rec hrec (.coll false l) (by simp [Item.isNilLike]) (by simp [isColl])
        simpa [membersOf, itemOfField] using this
    · simp
    · simp [optBeq_refl]
    · simp [iriEqv_refl]
    · -- link, guarded by notNilLike
      simp only [Bool.not_eq_true'] at hg
      have hg' : guardHolds "notNilLike" (o.get? f) = true := by simpa using hg
      cases hv : o.get? f with
      | none => simp [hv, guardHolds] at hg'
      | some v =>
        rw [hv] at hg'
        simp only [guardHolds, Bool.not_eq_true'] at hg'
        simp [hg', iriEqv_refl]

theorem rowsHold_self (T : List EqualsRow) (hT : KnownRows T) (rec : Rec) (hrec : ∀ y, rec y y ≠ some false)
    (recv : String) (o : Fields) : rowsHold T rec recv o o ≠ some false :=
  allO_ne_false _ _ (fun row hrow => rowHolds_self rec hrec o row (knownRows_rowsOf T hT recv row hrow))

theorem objectGuards_self (k : Kind) (p : Bool) (o : Fields) (hk : k ≠ .link) :
    objectGuards o (.node k p o) = true := by
  have hl : Flatten.isLinkM (.node k p o) = false := by cases k <;> simp_all [Flatten.isLinkM]
  simp [objectGuards, Item.isNilLike, isColl, Flatten.linkOf, typeOf, iriEqvCS_refl, IRI.foldEq_refl, hl]

theorem objectEquals_self (T : List EqualsRow) (hT : KnownRows T) (rec : Rec) (hrec : ∀ y, rec y y ≠ some false)
    (k : Kind) (p : Bool) (o : Fields) (hk : k ≠ .link) : objectEquals T rec o (.node k p o) ≠ some false := by
  have hb : (k == Kind.link) = false := by simpa using hk
  simp only [objectEquals, objectGuards_self k p o hk, Bool.not_true, Bool.false_eq_true, if_false, hb]
  exact rowsHold_self T hT rec hrec "Object" o

theorem collectionEquals_self (T : List EqualsRow) (hT : KnownRows T) (rec : Rec) (hrec : ∀ y, rec y y ≠ some false)
    (k : Kind) (p : Bool) (c : Fields) (hk : k ≠ .link) : collectionEquals T rec c k p c ≠ some false :=
  andO_ne_false _ _ (objectEquals_self T hT rec hrec k p c hk) (rowsHold_self T hT rec hrec "Collection" c)

theorem needSwap_self (x : Item) : needSwap x x = false := by
  simp [needSwap]

/-! ### property theorems -/

/-- Reflexivity, in the "never the wrong answer" form: for EVERY value tree and every amount of fuel the
model never answers that a value differs from itself (it answers `true`, or declares the comparison
outside its domain). -/
theorem C09_refl (T : List EqualsRow) (hT : KnownRows T) : ∀ (n : Nat) (x : Item), eqF T n x x ≠ some false := by
  intro n
  induction n with
  | zero => intro x; simp [eqF]
  | succ n ih =>
    intro x
    simp only [eqF, needSwap_self, Bool.false_eq_true, if_false, Bool.or_self, Bool.and_self]
    split
    · rename_i h; simp [h]
    · rename_i hnil
      have hnil' : x.isNilLike = false := by simpa using hnil
      simp only [core]
      split
      · rename_i hi; simp [iriEqv_refl]
      · split
        · rename_i hc
          simp only [hc, Bool.not_true, Bool.false_eq_true, if_false]
          exact listEquals_self (eqF T n) ih x hnil' hc
        · -- struct values
          cases x with
          | node k p o =>
            cases k with
            | link =>
              simp only [linkEquals, iriEqvCS_refl, IRI.foldEq_refl, Bool.and_self, Bool.not_true, Bool.false_eq_true, if_false]
              exact rowsHold_self T hT (eqF T n) ih "Link" o
            | _ =>
              simp only [beq_self_eq_true, if_true, reduceCtorEq, Bool.false_eq_true, if_false]
              all_goals first
                | (simp only [(by decide : (Kind.object == Kind.link) = false)]; done)
                | skip
              all_goals
                simp only [familyEquals]
                repeat' split
                all_goals first
                  | exact objectEquals_self T hT (eqF T n) ih _ p o (by decide)
                  | exact collectionEquals_self T hT (eqF T n) ih _ p o (by decide)
                  | (apply andO_ne_false <;> first
                      | exact objectEquals_self T hT (eqF T n) ih _ p o (by decide)
                      | exact collectionEquals_self T hT (eqF T n) ih _ p _ (by decide)
                      | exact rowsHold_self T hT (eqF T n) ih _ o
                      | (apply andO_ne_false <;> first
                          | exact objectEquals_self T hT (eqF T n) ih _ p o (by decide)
                          | exact collectionEquals_self T hT (eqF T n) ih _ p _ (by decide)
                          | exact rowsHold_self T hT (eqF T n) ih _ o))
                  | simp
          | _ => simp_all [Item.isNilLike, isIRI, isColl]

/-- Nil-correctness: two nil-like items are equal; a nil-like item and a non-nil one are unequal in
either argument order — whenever there is any fuel at all. -/
theorem C09_nil (T : List EqualsRow) (n : Nat) (a b : Item) (h : a.isNilLike = true ∨ b.isNilLike = true) :
    eqF T (n + 1) a b = some (a.isNilLike && b.isNilLike) := by
  simp only [eqF]
  rcases h with h | h <;> simp [h]

theorem C09_nil_equal (T : List EqualsRow) (a b : Item) (ha : a.isNilLike = true) (hb : b.isNilLike = true) :
    itemsEqual T a b = some true := by
  simp [itemsEqual, C09_nil T _ a b (Or.inl ha), ha, hb]

theorem C09_nil_unequal (T : List EqualsRow) (a b : Item) (ha : a.isNilLike = true) (hb : b.isNilLike = false) :
    itemsEqual T a b = some false ∧ itemsEqual T b a = some false := by
  simp [itemsEqual, C09_nil T _ a b (Or.inl ha), C09_nil T _ b a (Or.inr ha), ha, hb]

/-- the generated table only uses comparators the model knows. -/
theorem C09_known_rows : KnownRows equalsRows := by
  intro r hr row hrow
  revert row; revert r
  decide

/-- Reflexivity of ItemsEqual on the model, for every item. -/
theorem C09_refl_items (x : Item) : itemsEqual equalsRows x x ≠ some false :=
  C09_refl equalsRows C09_known_rows _ x

theorem get_swapItems : ∀ (fs : Fields) (nm : String), nm ≠ "Items" → nm ≠ "OrderedItems" →
    (swapItems fs).get? nm = fs.get? nm
  | .nil, _, _, _ => rfl
  | .cons n v r, nm, h1, h2 => by
    simp only [swapItems, Fields.get?]
    by_cases hn : n = nm
    · subst hn; simp [h1, h2]
    · by_cases hi : n = "Items"
      · subst hi
        have : ¬ ("OrderedItems" = nm) := fun e => h2 e.symm
        simp [this, hn, get_swapItems r nm h1 h2]
      · by_cases ho : n = "OrderedItems"
        · subst ho
          have : ¬ ("Items" = nm) := fun e => h1 e.symm
          simp [this, hn, get_swapItems r nm h1 h2]
        · simp [hi, ho, hn, get_swapItems r nm h1 h2]

/-- Identity-sensitivity at the object core: a value whose id is not equivalent to the other's, or whose
type differs from it ignoring case, never passes `Object.Equals` — in either direction. -/
theorem C09_guards (o : Fields) (w : Item)
    (h : iriEqvCS (Flatten.strOf o "ID") (Flatten.linkOf w) = false ∨ IRI.foldEq (Flatten.strOf o "Type") (typeOf w) = false)
    (T : List EqualsRow) (rec : Rec) : objectEquals T rec o w = some false := by
  have : objectGuards o w = false := by
    rcases h with h | h <;> simp [objectGuards, h]
  simp [objectEquals, this]

/-- Two objects of the same struct whose ids are not equivalent, or whose types differ ignoring case, are
never equal: the model never answers `true`. -/
theorem C09_identity (T : List EqualsRow) (n : Nat) (k : Kind) (p q : Bool) (o w : Fields)
    (h : iriEqvCS (Flatten.strOf o "ID") (Flatten.strOf w "ID") = false ∨
         IRI.foldEq (Flatten.strOf o "Type") (Flatten.strOf w "Type") = false) :
    core T (eqF T n) (.node k p o) (.node k q w) ≠ some true := by
  have h1 : ∀ (kk : Kind) (pp : Bool) (rec : Rec), objectEquals T rec o (.node kk pp w) = some false := by
    intro kk pp rec
    exact C09_guards o _ (by simpa [Flatten.linkOf, typeOf] using h) T rec
  have h2 : ∀ (kk : Kind) (pp : Bool) (rec : Rec), objectEquals T rec w (.node kk pp o) = some false := by
    intro kk pp rec
    refine C09_guards w _ ?_ T rec
    rcases h with h | h
    · left; rw [iriEqvCS_symm]; simpa [Flatten.linkOf] using h
    · right; rw [IRI.foldEq_symm]; simpa [typeOf] using h
  have h3 : ∀ (kk : Kind) (pp : Bool) (rec : Rec),
      objectEquals T rec (swapItems o) (.node kk pp (swapItems w)) ≠ some true ∧
      objectEquals T rec (swapItems w) (.node kk pp (swapItems o)) ≠ some true := by
    intro kk pp rec
    have hs : ∀ (fs : Fields) (nm : String), nm ≠ "Items" → nm ≠ "OrderedItems" → Flatten.strOf (swapItems fs) nm = Flatten.strOf fs nm :=
      fun fs nm h1 h2 => by simp [Flatten.strOf, get_swapItems fs nm h1 h2]
    constructor
    · rw [C09_guards (swapItems o) _ (by
        rcases h with h | h
        · left; simpa [Flatten.linkOf, hs] using h
        · right; simpa [typeOf, hs] using h) T rec]; simp
    · rw [C09_guards (swapItems w) _ (by
        rcases h with h | h
        · left; rw [iriEqvCS_symm]; simpa [Flatten.linkOf, hs] using h
        · right; rw [IRI.foldEq_symm]; simpa [typeOf, hs] using h) T rec]; simp
  simp only [core, isIRI, isColl, Bool.or_self, Bool.false_eq_true, if_false]
  cases k with
  | link =>
    simp only [linkEquals]
    have : (iriEqvCS (Flatten.strOf o "ID") (Flatten.strOf w "ID") && IRI.foldEq (Flatten.strOf o "Type") (Flatten.strOf w "Type")) = false := by
      rcases h with h | h <;> simp [h]
    simp [this]
  | _ =>
    simp only [beq_self_eq_true, if_true, reduceCtorEq, Bool.false_eq_true, if_false]
    all_goals first
      | (simp only [(by decide : (Kind.object == Kind.link) = false)]; done)
      | skip
    all_goals
      simp only [familyEquals, collectionEquals]
      repeat' split
      all_goals first
        | (rw [h1]; simp; done)
        | (simp [h1]; done)
        | (apply andO_ne_true_of_first; first
            | (rw [h1]; simp; done)
            | (rw [h2]; simp; done)
            | exact (h3 _ _ _).1
            | exact (h3 _ _ _).2
            | (apply andO_ne_true_of_first; first
                | (rw [h1]; simp; done)
                | (rw [h2]; simp; done)
                | exact (h3 _ _ _).1
                | exact (h3 _ _ _).2
                | (apply andO_ne_true_of_first; first
                    | (rw [h1]; simp; done)
                    | (rw [h2]; simp; done)
                    | exact (h3 _ _ _).1
                    | exact (h3 _ _ _).2)))
        | simp

/-! ### one property changed -/

theorem allO_ne_true_of_mem {α : Type} (f : α → Option Bool) (l : List α) (x : α) (hx : x ∈ l)
    (h : f x ≠ some true) : allO f l ≠ some true := by
  induction l with
  | nil => simp at hx
  | cons a r ih =>
    simp only [allO]
    rcases List.mem_cons.mp hx with rfl | hx'
    · exact andO_ne_true_of_first _ _ h
    · unfold andO
      cases hf : f a with
      | none => simp
      | some b => cases b <;> simp_all

theorem andO_ne_true_of_second (a : Option Bool) (b : Unit → Option Bool) (hb : b () ≠ some true) :
    andO a b ≠ some true := by
  unfold andO
  cases a with
  | none => simp
  | some x => cases x <;> simp_all

/-- If some comparison row of `Object.Equals` does not hold between the receiver's fields and the
argument's, `Object.Equals` is not true. -/
theorem objectEquals_row (T : List EqualsRow) (rec : Rec) (o w : Fields) (k : Kind) (p : Bool)
    (row : String × String × String) (hrow : row ∈ rowsOf T "Object") (hne : rowHolds rec o w row ≠ some true) :
    objectEquals T rec o (.node k p w) ≠ some true := by
  simp only [objectEquals]
  split
  · simp
  · split
    · simp
    · exact allO_ne_true_of_mem _ _ row hrow hne

/-- Changing one property of the object core: for two values of the same non-collection struct, if the
comparison row of that property does not hold (the second argument carries a value for it that the
first does not equal), they are never equal. Covers objects, actors, (intransitive) activities,
questions, places, profiles, relationships and tombstones. -/
theorem C09_core_property (T : List EqualsRow) (n : Nat) (k : Kind) (p q : Bool) (o w : Fields)
    (hk : isCollKind k = false) (hl : k ≠ .link)
    (row : String × String × String) (hrow : row ∈ rowsOf T "Object") (hne : rowHolds (eqF T n) o w row ≠ some true) :
    core T (eqF T n) (.node k p o) (.node k q w) ≠ some true := by
  have h1 : ∀ (kk : Kind) (pp : Bool), objectEquals T (eqF T n) o (.node kk pp w) ≠ some true :=
    fun kk pp => objectEquals_row T _ o w kk pp row hrow hne
  cases k
  all_goals first
    | (exfalso; exact hl rfl)
    | (exfalso; revert hk; decide)
    | skip
  all_goals
    simp only [core, isIRI, isColl, Bool.or_self, Bool.false_eq_true, if_false, familyEquals, beq_self_eq_true, if_true, isCollKind,
      reduceCtorEq, Bool.or_false]
    try simp only [(by decide : (Kind.object == Kind.link) = false), (by decide : (Kind.actor == Kind.link) = false), (by decide : (Kind.activity == Kind.link) = false), (by decide : (Kind.intransitive == Kind.link) = false), (by decide : (Kind.question == Kind.link) = false), (by decide : (Kind.place == Kind.link) = false), (by decide : (Kind.profile == Kind.link) = false), (by decide : (Kind.relationship == Kind.link) = false), (by decide : (Kind.tombstone == Kind.link) = false), Bool.false_eq_true, if_false]
    repeat' split
    all_goals first
      | exact h1 _ _
      | (apply andO_ne_true_of_first; first
          | exact h1 _ _
          | (apply andO_ne_true_of_first; exact h1 _ _))
      | simp


/-- …and for a transitive activity its actor, target, result, origin, instrument (rows of
IntransitiveActivity.Equals) and its object (row of Activity.Equals). -/
theorem C09_activity_property (T : List EqualsRow) (n : Nat) (p q : Bool) (o w : Fields)
    (hw : isActivityDispatch (Flatten.strOf w "Type") = true)
    (row : String × String × String)
    (hrow : row ∈ rowsOf T "IntransitiveActivity" ∨ row ∈ rowsOf T "Activity")
    (hne : rowHolds (eqF T n) o w row ≠ some true) :
    core T (eqF T n) (.node .activity p o) (.node .activity q w) ≠ some true := by
  simp only [core, isIRI, isColl, Bool.or_self, Bool.false_eq_true, if_false, familyEquals, hw, if_true,
    beq_self_eq_true]
  simp only [(by decide : (Kind.activity == Kind.link) = false), Bool.false_eq_true, if_false]
  rcases hrow with hrow | hrow
  · apply andO_ne_true_of_first
    apply andO_ne_true_of_second
    exact allO_ne_true_of_mem _ _ row hrow hne
  · apply andO_ne_true_of_second
    exact allO_ne_true_of_mem _ _ row hrow hne

/-- the regenerated tables compare every property the statement lists: the object core other than media
type and source, and actor/object/target/result/origin/instrument of activities. -/
theorem C09_rows_complete :
    ["Name", "Summary", "Content", "Attachment", "AttributedTo", "Audience", "Context", "Generator", "Icon", "Image",
     "InReplyTo", "Location", "Preview", "Replies", "Tag", "URL", "To", "Bto", "CC", "BCC", "Published", "Updated",
     "StartTime", "EndTime", "Duration", "Likes", "Shares"].all
        (fun f => (rowsOf equalsRows "Object").any (fun r => r.1 == f)) = true ∧
    ["Actor", "Target", "Result", "Origin", "Instrument"].all
        (fun f => (rowsOf equalsRows "IntransitiveActivity").any (fun r => r.1 == f)) = true ∧
    (rowsOf equalsRows "Activity").any (fun r => r.1 == "Object") = true := by
  decide

end APModel.Equal
