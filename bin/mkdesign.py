import json,re
seedtbl=open('/verif/bin/seedtable.md').read()
kf=json.load(open('/verif/KNOWN_FINDINGS.json'))['findings']
fixed=[f for f in kf if f['status']=='fixed']; openf=[f for f in kf if f['status']=='open']
fixlines='\n'.join('* `%s` — %s'%(f.get('commit','?'), re.sub(r'^fixed: property=\S+ \S+ ','',f['what'])) + ' (%s)'%f['property'] for f in fixed)
openlines='\n'.join('* **%s** (%s): %s — class `%s`'%(f['id'],f['property'],f['what'],f['class']) for f in openf)
part=open('/verif/bin/design_part1.md').read()
part=part.replace('@SEEDTBL@',seedtbl).replace('@OPEN@',openlines).replace('@FIXED@',fixlines).replace('@NFIXED@',str(len(fixed)))
old=open('/verif/DESIGN.md').read()
i=old.index('Contents\n')
open('/verif/DESIGN.md','w').write(part+old[i:])
print(len(part.split('\n')))
