import Driver.Util
import APModel.Model.IRI
open Lean APModel.IRI

namespace Driver

def outsideJ : Json := Json.mkObj [("outside", Json.bool true)]

/-- `IRI.Equals` on the model; answers `{"outside":true}` when the slow path would need a URL the
splitter does not cover. -/
def iriEqualsJ (a b : Str) (cs : Bool) : Json :=
  let is := stripFragment a
  let ws := stripFragment b
  let is' := if cs then is else stripScheme is
  let ws' := if cs then ws else stripScheme ws
  if foldEq is' ws' then Json.bool true
  else match parseURL a, parseURL b with
    | .outside, _ => outsideJ
    | _, .outside => outsideJ
    | _, _ => Json.bool (equals parseOpt a b cs)

def opIriEquals (j : Json) : R Json := do
  let a ← unhex (← strF j "a")
  let b ← unhex (← strF j "b")
  let cs ← boolF j "cs"
  return iriEqualsJ a b cs

def opIrisContains (j : Json) : R Json := do
  let l ← (← arrF j "l").mapM (fun x => do unhex (← str x))
  let r ← unhex (← strF j "r")
  if APModel.IRI.isNilIRI r then return Json.bool false
  let rs := l.map (fun i => iriEqualsJ r i false)
  if rs.any (· == Json.bool true) then return Json.bool true
  if rs.any (· == outsideJ) then return outsideJ
  return Json.bool false

end Driver
